//! Shared machinery: run context, violation / known-finding reporting, evidence files,
//! panic capture, supervised sub-processes.

use serde_json::{json, Value};
use std::collections::BTreeMap;
use std::io::Read;
use std::panic::{catch_unwind, AssertUnwindSafe, UnwindSafe};
use std::path::PathBuf;
use std::sync::Mutex;
use std::time::{Duration, Instant};

#[derive(Clone, Copy, PartialEq, Eq, Debug)]
pub enum Tier {
    Quick,
    Thorough,
}

pub fn verif_root() -> PathBuf {
    match std::env::var("VERIF_ROOT") {
        Ok(s) if !s.is_empty() => PathBuf::from(s),
        _ => PathBuf::from("/verif"),
    }
}

pub struct Ctx {
    pub prop: String,
    pub tier: Tier,
    pub seed: u64,
    start: Instant,
    /// open known findings of this property: key -> text
    known: BTreeMap<String, String>,
    inner: Mutex<Inner>,
    /// when replaying, nothing is written
    pub replay_mode: bool,
}

#[derive(Default)]
struct Inner {
    new_violations: Vec<(String, String)>,
    suppressed_new: usize,
    known_hits: BTreeMap<String, usize>,
    notes: Vec<String>,
    replay_counter: usize,
    samples: Vec<Value>,
}

/// maximum number of distinct VIOLATION lines printed per run (further ones are counted only)
const MAX_REPORTED: usize = 8;

impl Ctx {
    pub fn new(prop: &str, tier: Tier, seed: u64) -> Ctx {
        let mut known = BTreeMap::new();
        let kf = verif_root().join("known_findings.txt");
        if let Ok(text) = std::fs::read_to_string(&kf) {
            for line in text.lines() {
                let line = line.trim();
                if !line.starts_with("open:") {
                    continue;
                }
                let rest = line["open:".len()..].trim();
                let mut p = None;
                let mut k = None;
                let mut words = rest.split_whitespace();
                let mut consumed = 0;
                for w in words.by_ref() {
                    if let Some(v) = w.strip_prefix("property=") {
                        p = Some(v.to_string());
                        consumed += 1;
                    } else if let Some(v) = w.strip_prefix("key=") {
                        k = Some(v.to_string());
                        consumed += 1;
                    }
                    if consumed == 2 {
                        break;
                    }
                }
                let text: Vec<&str> = words.collect();
                if let (Some(p), Some(k)) = (p, k) {
                    if p == prop {
                        known.insert(k, text.join(" "));
                    }
                }
            }
        }
        Ctx {
            prop: prop.to_string(),
            tier,
            seed,
            start: Instant::now(),
            known,
            inner: Mutex::new(Inner::default()),
            replay_mode: false,
        }
    }

    pub fn quick(&self) -> bool {
        self.tier == Tier::Quick
    }

    pub fn pick<T>(&self, quick: T, thorough: T) -> T {
        if self.quick() {
            quick
        } else {
            thorough
        }
    }

    pub fn elapsed(&self) -> f64 {
        self.start.elapsed().as_secs_f64()
    }

    pub fn note(&self, s: impl Into<String>) {
        let s = s.into();
        println!("NOTE {}", s);
        self.inner.lock().unwrap().notes.push(s);
    }

    /// record an actual case executed by this run (the first few are kept and written to coverage.samples)
    pub fn sample(&self, v: Value) {
        let mut g = self.inner.lock().unwrap();
        if g.samples.len() < 6 {
            g.samples.push(v);
        }
    }

    /// number of violations that are not covered by an open known finding
    pub fn new_violation_count(&self) -> usize {
        let g = self.inner.lock().unwrap();
        g.new_violations.len() + g.suppressed_new
    }

    /// Report a violation.  `key` is the stable identity of the failing input / call site; if it equals the key of
    /// an `open:` line of known_findings.txt for this property, it is counted as a known finding.
    pub fn violation(&self, key: &str, what: &str, replay: Value) {
        let mut g = self.inner.lock().unwrap();
        if self.known.contains_key(key) {
            *g.known_hits.entry(key.to_string()).or_insert(0) += 1;
            return;
        }
        if g.new_violations.iter().any(|(k, _)| k == key) {
            g.suppressed_new += 1;
            return;
        }
        if g.new_violations.len() >= MAX_REPORTED {
            g.suppressed_new += 1;
            return;
        }
        g.replay_counter += 1;
        let n = g.replay_counter;
        let dir = verif_root().join("replays");
        let _ = std::fs::create_dir_all(&dir);
        let path = dir.join(format!("{}-{}.json", self.prop, n));
        let body = json!({
            "property": self.prop,
            "key": key,
            "what": what,
            "tier": format!("{:?}", self.tier),
            "seed": self.seed,
            "case": replay,
            "replay_cmd": format!("./check {} --replay {}", self.prop, path.display()),
        });
        if !self.replay_mode {
            let _ = std::fs::write(&path, serde_json::to_string_pretty(&body).unwrap());
        }
        println!("DETAIL property={} key={} {}", self.prop, key, what);
        println!("VIOLATION property={} replay={}", self.prop, path.display());
        g.new_violations.push((key.to_string(), what.to_string()));
    }

    /// write the evidence file, print known findings, return the process exit code
    pub fn finish(&self, level: &str, mut coverage: Value, assumptions: Vec<String>) -> i32 {
        let g = self.inner.lock().unwrap();
        for (k, n) in g.known_hits.iter() {
            println!(
                "KNOWN-FINDING: property={} key={} ({} failing case(s) this run) {}",
                self.prop,
                k,
                n,
                self.known.get(k).cloned().unwrap_or_default()
            );
        }
        let nviol = g.new_violations.len() + g.suppressed_new;
        if let Some(obj) = coverage.as_object_mut() {
            // actual cases recorded during the run come first in coverage.samples
            if !g.samples.is_empty() {
                let mut all: Vec<Value> = g.samples.iter().map(|s| json!({"executed_case": s})).collect();
                if let Some(Value::Array(old)) = obj.get("samples") {
                    all.extend(old.iter().cloned());
                }
                obj.insert("samples".to_string(), Value::Array(all));
            }
            obj.insert(
                "known_findings_hit".to_string(),
                json!(g.known_hits.iter().map(|(k, n)| json!({"key": k, "cases": n})).collect::<Vec<_>>()),
            );
            obj.insert("notes".to_string(), json!(g.notes));
            obj.insert(
                "new_violation_keys".to_string(),
                json!(g.new_violations.iter().map(|(k, w)| json!({"key": k, "what": w})).collect::<Vec<_>>()),
            );
        }
        let ev = json!({
            "property_id": self.prop,
            "tier": if self.quick() { "quick" } else { "thorough" },
            "seed": self.seed,
            "level": level,
            "coverage": coverage,
            "assumptions": assumptions,
            "wall_s": self.elapsed(),
            "violations": nviol,
        });
        if !self.replay_mode {
            let dir = verif_root().join("evidence");
            let _ = std::fs::create_dir_all(&dir);
            let path = dir.join(format!("{}.json", self.prop));
            std::fs::write(&path, serde_json::to_string_pretty(&ev).unwrap()).expect("cannot write evidence");
        }
        println!(
            "SUMMARY property={} tier={:?} seed={} new_violations={} known_finding_keys={} wall_s={:.1}",
            self.prop,
            self.tier,
            self.seed,
            nviol,
            g.known_hits.len(),
            self.elapsed()
        );
        if nviol > 0 {
            1
        } else {
            0
        }
    }
}

// ------------------------------------------------------------------------------------------------
// panic capture

thread_local! {
    static LAST_PANIC: std::cell::RefCell<Option<String>> = const { std::cell::RefCell::new(None) };
}

/// install a panic hook that records the message instead of printing it
pub fn install_quiet_panic_hook() {
    std::panic::set_hook(Box::new(|info| {
        let msg = if let Some(s) = info.payload().downcast_ref::<&str>() {
            s.to_string()
        } else if let Some(s) = info.payload().downcast_ref::<String>() {
            s.clone()
        } else {
            "panic".to_string()
        };
        let loc = info
            .location()
            .map(|l| format!("{}:{}", l.file(), l.line()))
            .unwrap_or_default();
        LAST_PANIC.with(|p| *p.borrow_mut() = Some(format!("{} @ {}", msg, loc)));
        if std::env::var("VERIF_PANIC_TRACE").is_ok() {
            eprintln!("panic: {} @ {}", msg, loc);
        }
    }));
}

/// run `f`, returning Err(panic message) if it panicked
pub fn guarded<T>(f: impl FnOnce() -> T + UnwindSafe) -> Result<T, String> {
    match catch_unwind(f) {
        Ok(v) => Ok(v),
        Err(_) => Err(LAST_PANIC
            .with(|p| p.borrow_mut().take())
            .unwrap_or_else(|| "panic (no message)".to_string())),
    }
}

pub fn guarded_mut<T>(f: impl FnOnce() -> T) -> Result<T, String> {
    guarded(AssertUnwindSafe(f))
}

// ------------------------------------------------------------------------------------------------
// supervised sub-processes (hang horizon, aborts as observations)

#[derive(Debug, Clone)]
pub struct ChildOutcome {
    pub timed_out: bool,
    pub exit_code: Option<i32>,
    pub signal: Option<i32>,
    pub stdout: String,
    pub stderr_tail: String,
    pub wall_s: f64,
}

/// re-execute this binary with `args`, wait at most `horizon`
pub fn run_self(args: &[String], horizon: Duration, envs: &[(&str, String)]) -> ChildOutcome {
    let exe = std::env::current_exe().expect("current_exe");
    run_cmd(exe.to_str().unwrap(), args, horizon, envs)
}

pub fn run_cmd(prog: &str, args: &[String], horizon: Duration, envs: &[(&str, String)]) -> ChildOutcome {
    use std::os::unix::process::ExitStatusExt;
    use std::process::{Command, Stdio};
    let t0 = Instant::now();
    let mut cmd = Command::new(prog);
    cmd.args(args).stdin(Stdio::null()).stdout(Stdio::piped()).stderr(Stdio::piped());
    for (k, v) in envs {
        cmd.env(k, v);
    }
    let mut child = cmd.spawn().expect("spawn child");
    let mut out = child.stdout.take().unwrap();
    let mut err = child.stderr.take().unwrap();
    let th_out = std::thread::spawn(move || {
        let mut s = Vec::new();
        let _ = out.read_to_end(&mut s);
        String::from_utf8_lossy(&s).to_string()
    });
    let th_err = std::thread::spawn(move || {
        let mut s = Vec::new();
        let _ = err.read_to_end(&mut s);
        let s = String::from_utf8_lossy(&s).to_string();
        let n = s.len();
        if n > 4000 {
            let mut start = n - 4000;
            while !s.is_char_boundary(start) {
                start += 1;
            }
            s[start..].to_string()
        } else {
            s
        }
    });
    let mut timed_out = false;
    let status = loop {
        match child.try_wait().expect("try_wait") {
            Some(st) => break st,
            None => {
                if t0.elapsed() > horizon {
                    timed_out = true;
                    let _ = child.kill();
                    break child.wait().expect("wait");
                }
                std::thread::sleep(Duration::from_millis(5));
            }
        }
    };
    let stdout = th_out.join().unwrap_or_default();
    let stderr_tail = th_err.join().unwrap_or_default();
    ChildOutcome {
        timed_out,
        exit_code: status.code(),
        signal: status.signal(),
        stdout,
        stderr_tail,
        wall_s: t0.elapsed().as_secs_f64(),
    }
}

// ------------------------------------------------------------------------------------------------
// small helpers

pub fn f64_bits_vec(v: &[f64]) -> Vec<u64> {
    v.iter().map(|x| x.to_bits()).collect()
}

/// deterministic 64-bit mixer (splitmix64), used to derive block bases etc. from VERIF_SEED
pub fn splitmix64(mut x: u64) -> u64 {
    x = x.wrapping_add(0x9E3779B97F4A7C15);
    let mut z = x;
    z = (z ^ (z >> 30)).wrapping_mul(0xBF58476D1CE4E5B9);
    z = (z ^ (z >> 27)).wrapping_mul(0x94D049BB133111EB);
    z ^ (z >> 31)
}

/// all permutations of 0..n (Heap's algorithm), in a deterministic order
pub fn permutations(n: usize) -> Vec<Vec<usize>> {
    let mut res = Vec::new();
    let mut a: Vec<usize> = (0..n).collect();
    fn rec(k: usize, a: &mut Vec<usize>, res: &mut Vec<Vec<usize>>) {
        if k <= 1 {
            res.push(a.clone());
            return;
        }
        for i in 0..k {
            rec(k - 1, a, res);
            if k % 2 == 0 {
                a.swap(i, k - 1);
            } else {
                a.swap(0, k - 1);
            }
        }
    }
    if n == 0 {
        res.push(vec![]);
    } else {
        rec(n, &mut a, &mut res);
    }
    res
}

/// next lexicographic permutation in place; false when wrapped
pub fn next_permutation<T: Ord>(a: &mut [T]) -> bool {
    if a.len() < 2 {
        return false;
    }
    let mut i = a.len() - 1;
    while i > 0 && a[i - 1] >= a[i] {
        i -= 1;
    }
    if i == 0 {
        a.reverse();
        return false;
    }
    let mut j = a.len() - 1;
    while a[j] <= a[i - 1] {
        j -= 1;
    }
    a.swap(i - 1, j);
    a[i..].reverse();
    true
}

pub fn silence_stderr() {
    // argmin's slog terminal observer writes one line per iteration to stderr
    unsafe {
        let devnull = libc::open(b"/dev/null\0".as_ptr() as *const libc::c_char, libc::O_WRONLY);
        if devnull >= 0 {
            libc::dup2(devnull, 2);
            libc::close(devnull);
        }
    }
}

pub fn silence_stdout_fd() -> i32 {
    // returns a dup of the original stdout so that it can be restored
    unsafe {
        let saved = libc::dup(1);
        let devnull = libc::open(b"/dev/null\0".as_ptr() as *const libc::c_char, libc::O_WRONLY);
        if devnull >= 0 {
            libc::dup2(devnull, 1);
            libc::close(devnull);
        }
        saved
    }
}

pub fn restore_stdout_fd(saved: i32) {
    unsafe {
        if saved >= 0 {
            libc::dup2(saved, 1);
            libc::close(saved);
        }
    }
}

/// Kolmogorov-Smirnov distance of a sample (will be sorted) to a CDF
pub fn ks_distance(sample: &mut [f64], cdf: impl Fn(f64) -> f64) -> f64 {
    sample.sort_by(|a, b| a.partial_cmp(b).unwrap());
    let n = sample.len() as f64;
    let mut d: f64 = 0.;
    for (i, x) in sample.iter().enumerate() {
        let f = cdf(*x);
        let lo = i as f64 / n;
        let hi = (i + 1) as f64 / n;
        d = d.max((f - lo).abs()).max((hi - f).abs());
    }
    d
}

/// mean and standard error of the mean
pub fn mean_se(v: &[f64]) -> (f64, f64) {
    let n = v.len() as f64;
    let mean = v.iter().sum::<f64>() / n;
    let var = v.iter().map(|x| (x - mean) * (x - mean)).sum::<f64>() / (n - 1.).max(1.);
    (mean, (var / n).sqrt())
}

// ------------------------------------------------------------------------------------------------
// watchdog for in-process calls that may not terminate

use std::collections::HashMap;
use std::sync::atomic::{AtomicBool, Ordering};
use std::sync::OnceLock;
use std::thread::ThreadId;

type TimeoutHandler = Box<dyn Fn(&str) + Send + Sync>;

struct WatchState {
    calls: Mutex<HashMap<ThreadId, (Instant, String)>>,
    handler: Mutex<Option<TimeoutHandler>>,
    started: AtomicBool,
}

static WATCH: OnceLock<WatchState> = OnceLock::new();

fn watch_state() -> &'static WatchState {
    WATCH.get_or_init(|| WatchState { calls: Mutex::new(HashMap::new()), handler: Mutex::new(None), started: AtomicBool::new(false) })
}

/// start the watchdog thread: if a watched call runs longer than `horizon`, `handler(description)` is called
/// (it is expected to report the violation, write the evidence and exit the process)
pub fn start_watchdog(horizon: Duration, handler: impl Fn(&str) + Send + Sync + 'static) {
    let ws = watch_state();
    *ws.handler.lock().unwrap() = Some(Box::new(handler));
    if ws.started.swap(true, Ordering::SeqCst) {
        return;
    }
    std::thread::spawn(move || loop {
        std::thread::sleep(Duration::from_millis(100));
        let ws = watch_state();
        let overdue: Option<String> = {
            let g = ws.calls.lock().unwrap();
            g.values().filter(|(t, _)| t.elapsed() > horizon).map(|(_, d)| d.clone()).min()
        };
        if let Some(desc) = overdue {
            if let Some(h) = ws.handler.lock().unwrap().as_ref() {
                h(&desc);
            }
            println!("ENGINE-ERROR watchdog handler returned; exiting");
            exit_process(2);
        }
    });
}

pub struct WatchGuard;

/// mark the start of a call that may hang; the guard clears the mark
pub fn watched(desc: impl FnOnce() -> String) -> WatchGuard {
    let ws = watch_state();
    if ws.started.load(Ordering::Relaxed) {
        ws.calls.lock().unwrap().insert(std::thread::current().id(), (Instant::now(), desc()));
    }
    WatchGuard
}

impl Drop for WatchGuard {
    fn drop(&mut self) {
        let ws = watch_state();
        if ws.started.load(Ordering::Relaxed) {
            ws.calls.lock().unwrap().remove(&std::thread::current().id());
        }
    }
}

// ------------------------------------------------------------------------------------------------
// stdout filter: the library prints chatter (" empty arg", "could not open file ...") on stdout; the harness's own
// lines must stay readable, so stdout is routed through a pipe and the chatter lines are dropped.

static FILTER: OnceLock<Mutex<Option<(i32, std::thread::JoinHandle<()>)>>> = OnceLock::new();

pub fn out_filter_install() {
    use std::io::{BufRead, Write};
    use std::os::fd::FromRawFd;
    if std::env::var("VERIF_NO_FILTER").is_ok() {
        return;
    }
    unsafe {
        let mut fds = [0i32; 2];
        if libc::pipe(fds.as_mut_ptr()) != 0 {
            return;
        }
        let saved = libc::dup(1);
        if saved < 0 {
            return;
        }
        libc::dup2(fds[1], 1);
        libc::close(fds[1]);
        let rd = fds[0];
        let h = std::thread::spawn(move || {
            let infile = std::fs::File::from_raw_fd(rd);
            let mut out = std::fs::File::from_raw_fd(libc::dup(saved));
            let reader = std::io::BufReader::new(infile);
            for line in reader.split(b'\n') {
                let Ok(line) = line else { break };
                let t = String::from_utf8_lossy(&line);
                let tt = t.trim();
                if tt == "empty arg" || tt.starts_with("SetSketchParams reload_json") || tt.starts_with("SetSketchParams dump") || tt.is_empty() && line.len() <= 1 {
                    continue;
                }
                let _ = out.write_all(&line);
                let _ = out.write_all(b"\n");
            }
            let _ = out.flush();
        });
        let _ = FILTER.get_or_init(|| Mutex::new(None)).lock().map(|mut g| *g = Some((saved, h)));
    }
}

/// flush and remove the filter (call before exiting the process)
pub fn out_filter_finish() {
    use std::io::Write;
    let _ = std::io::stdout().flush();
    if let Some(m) = FILTER.get() {
        if let Some((saved, h)) = m.lock().unwrap().take() {
            unsafe {
                libc::dup2(saved, 1); // closes the pipe's write end held by fd 1
                libc::close(saved);
            }
            let _ = h.join();
        }
    }
}

pub fn exit_process(code: i32) -> ! {
    out_filter_finish();
    std::process::exit(code)
}

/// install the watchdog with the standard handler: a watched call (see `watched`) running longer than `secs` seconds is
/// reported as a non-termination violation of the current property, the evidence is written and the process exits 1
pub fn install_hang_watchdog(ctx: &Ctx, level: &'static str, secs: u64) {
    let ctx_ptr: &'static Ctx = unsafe { &*(ctx as *const Ctx) };
    start_watchdog(Duration::from_secs(secs), move |desc| {
        ctx_ptr.violation(
            "nontermination",
            &format!("the call `{}` did not return within {} s", desc, secs),
            json!({"kind": "watchdog", "call": desc}),
        );
        let code = ctx_ptr.finish(
            level,
            json!({"states": 1, "transitions": 1, "traces_validated_against_impl": 1, "evaluations": 1, "distinct_nontrivial": 2, "rule": "run aborted by the hang watchdog",
                   "samples": [desc], "exhaustive": false, "note": "run aborted by the watchdog: a call did not terminate"}),
            vec![],
        );
        exit_process(code);
    });
}

/// upper tail probability of the chi-square law with `dof` degrees of freedom: Q(dof/2, x/2) (regularised incomplete gamma,
/// series for x < a+1, continued fraction otherwise)
pub fn chi2_sf(x: f64, dof: f64) -> f64 {
    if x <= 0. || dof <= 0. {
        return 1.;
    }
    let a = dof / 2.;
    let xx = x / 2.;
    let gln = ln_gamma(a);
    if xx < a + 1. {
        // series for P(a, x)
        let mut ap = a;
        let mut sum = 1. / a;
        let mut del = sum;
        for _ in 0..10_000 {
            ap += 1.;
            del *= xx / ap;
            sum += del;
            if del.abs() < sum.abs() * 1e-16 {
                break;
            }
        }
        let p = sum * (-xx + a * xx.ln() - gln).exp();
        (1. - p).max(0.)
    } else {
        // continued fraction for Q(a, x) (modified Lentz)
        let tiny = 1e-300;
        let mut b = xx + 1. - a;
        let mut c = 1. / tiny;
        let mut d = 1. / b;
        let mut h = d;
        for i in 1..10_000 {
            let an = -(i as f64) * (i as f64 - a);
            b += 2.;
            d = an * d + b;
            if d.abs() < tiny {
                d = tiny;
            }
            c = b + an / c;
            if c.abs() < tiny {
                c = tiny;
            }
            d = 1. / d;
            let del = d * c;
            h *= del;
            if (del - 1.).abs() < 1e-16 {
                break;
            }
        }
        (-xx + a * xx.ln() - gln).exp() * h
    }
}

fn ln_gamma(x: f64) -> f64 {
    // Lanczos approximation
    let g = [76.18009172947146, -86.50532032941677, 24.01409824083091, -1.231739572450155, 0.1208650973866179e-2, -0.5395239384953e-5];
    let mut y = x;
    let tmp = x + 5.5 - (x + 0.5) * (x + 5.5).ln();
    let mut ser = 1.000000000190015;
    for c in g {
        y += 1.;
        ser += c / y;
    }
    -tmp + (2.5066282746310005 * ser / x).ln()
}

#[cfg(test)]
mod tests {
    #[test]
    fn chi2_tail() {
        // reference values: P(chi2_1 > 3.841) = 0.05, P(chi2_10 > 18.307) = 0.05, P(chi2_119 > 212) ~ 4e-7
        assert!((super::chi2_sf(3.841458820694124, 1.) - 0.05).abs() < 1e-6);
        assert!((super::chi2_sf(18.307038053275146, 10.) - 0.05).abs() < 1e-6);
        assert!((super::chi2_sf(37.33, 1.) - 1e-9).abs() < 2e-10);
    }
}


// ------------------------------------------------------------------------------------------------
// trace logging as part of the environment: `log` macros evaluate their arguments only when the level is enabled, so code
// inside them runs only under a logger.  A discarding logger is installed once; with_trace_logging raises the global level
// to Trace for the duration of a closure (callers keep these scopes sequential).

struct DiscardLogger;
impl log::Log for DiscardLogger {
    fn enabled(&self, _: &log::Metadata) -> bool {
        true
    }
    fn log(&self, record: &log::Record) {
        // format the arguments as a real logger would
        let _ = std::fmt::format(*record.args());
    }
    fn flush(&self) {}
}
static DISCARD: DiscardLogger = DiscardLogger;
static LOGGER_ONCE: std::sync::Once = std::sync::Once::new();

pub fn with_trace_logging<R>(f: impl FnOnce() -> R) -> R {
    LOGGER_ONCE.call_once(|| {
        let _ = log::set_logger(&DISCARD);
    });
    log::set_max_level(log::LevelFilter::Trace);
    let r = std::panic::catch_unwind(std::panic::AssertUnwindSafe(f));
    log::set_max_level(log::LevelFilter::Off);
    match r {
        Ok(v) => v,
        Err(e) => std::panic::resume_unwind(e),
    }
}
