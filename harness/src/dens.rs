//! uniform access to the two densified one-permutation sketchers (real code, hook H3)

use fnv::FnvHasher;
use probminhash::densminhash::{OptDensMinHash, RevOptDensMinHash};
use probminhash::nohasher::NoHashHasher;
use std::hash::{BuildHasher, BuildHasherDefault, Hasher};

#[derive(Clone, Debug, PartialEq, Eq, Hash)]
pub struct DensState {
    pub hs: Vec<u64>, // float sketch, bit patterns (f32 widened)
    pub values: Vec<u64>,
    pub init: Vec<bool>,
    pub nb_empty: i64,
}

#[derive(Clone, Debug, PartialEq, Eq, Hash)]
pub struct DensViews {
    pub hs: Vec<u64>,
    pub v64: Vec<u64>,
    pub v32: Vec<u32>,
}

pub trait Dens: Sized {
    fn new(m: usize) -> Self;
    fn name() -> &'static str;
    fn sketch(&mut self, x: &u64);
    fn end_sketch(&mut self);
    fn sketch_slice(&mut self, s: &[u64]) -> Result<(), String>;
    fn reinit(&mut self);
    fn state(&self) -> DensState;
    /// the three public views (panic if not finished: callers guard)
    fn views(&self) -> DensViews;
    /// hash of an item as the sketcher computes it
    fn item_hash(x: &u64) -> u64;
}

pub trait FBits: num::Float + std::fmt::Debug + rand_distr::uniform::SampleUniform {
    fn bits(self) -> u64;
    fn fname() -> &'static str;
}
impl FBits for f64 {
    fn bits(self) -> u64 {
        self.to_bits()
    }
    fn fname() -> &'static str {
        "f64"
    }
}
impl FBits for f32 {
    fn bits(self) -> u64 {
        self.to_bits() as u64
    }
    fn fname() -> &'static str {
        "f32"
    }
}

pub trait HName: Hasher + Default {
    fn hname() -> &'static str;
}
impl HName for FnvHasher {
    fn hname() -> &'static str {
        "Fnv"
    }
}
impl HName for NoHashHasher {
    fn hname() -> &'static str {
        "NoHash"
    }
}

macro_rules! impl_dens {
    ($ty:ident, $label:expr) => {
        impl<F: FBits, H: HName> Dens for $ty<F, u64, H>
        where
            rand::distr::StandardUniform: rand::distr::Distribution<F>,
        {
            fn new(m: usize) -> Self {
                $ty::<F, u64, H>::new(m, BuildHasherDefault::<H>::default())
            }
            fn name() -> &'static str {
                // leaked once per instantiation; only used for labels
                Box::leak(format!("{}<{},{}>", $label, F::fname(), H::hname()).into_boxed_str())
            }
            fn sketch(&mut self, x: &u64) {
                $ty::sketch(self, x)
            }
            fn end_sketch(&mut self) {
                $ty::end_sketch(self)
            }
            fn sketch_slice(&mut self, s: &[u64]) -> Result<(), String> {
                $ty::sketch_slice(self, s).map_err(|e| e.to_string())
            }
            fn reinit(&mut self) {
                $ty::reinit(self)
            }
            fn state(&self) -> DensState {
                let (hs, values, init, nb_empty) = self.verif_state();
                DensState { hs: hs.iter().map(|f| f.bits()).collect(), values, init, nb_empty }
            }
            fn views(&self) -> DensViews {
                DensViews { hs: self.get_hsketch().iter().map(|f| f.bits()).collect(), v64: self.get_hsketch_u64(), v32: self.get_hsketch_u32() }
            }
            fn item_hash(x: &u64) -> u64 {
                BuildHasherDefault::<H>::default().hash_one(&x)
            }
        }
    };
}

impl_dens!(OptDensMinHash, "OptDens");
impl_dens!(RevOptDensMinHash, "RevOptDens");

pub fn murmur32_of(v: u64) -> u32 {
    murmur3::murmur3_32(&mut std::io::Cursor::new(v.to_ne_bytes()), 127).unwrap()
}
