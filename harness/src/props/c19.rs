//! C19 — invertible integer hashes are bijections with the given inverses.
//! Engine C: exhaustive sweep of the 32-bit domain; complete structured sub-domains of the 64-bit domain.

use crate::common::Ctx;
use probminhash::invhash::{int32_hash, int32_hash_inverse, int64_hash, int64_hash_inverse};
use rayon::prelude::*;
use serde_json::{json, Value};
use std::sync::atomic::{AtomicU64, Ordering};

fn bad32(x: u32) -> Option<String> {
    let a = int32_hash_inverse(int32_hash(x));
    if a != x {
        return Some(format!("int32_hash_inverse(int32_hash({:#x})) = {:#x}", x, a));
    }
    let b = int32_hash(int32_hash_inverse(x));
    if b != x {
        return Some(format!("int32_hash(int32_hash_inverse({:#x})) = {:#x}", x, b));
    }
    None
}

fn bad64(x: u64) -> Option<String> {
    let a = int64_hash_inverse(int64_hash(x));
    if a != x {
        return Some(format!("int64_hash_inverse(int64_hash({:#x})) = {:#x}", x, a));
    }
    let b = int64_hash(int64_hash_inverse(x));
    if b != x {
        return Some(format!("int64_hash(int64_hash_inverse({:#x})) = {:#x}", x, b));
    }
    None
}

struct Sweep {
    count: AtomicU64,
    /// smallest failing argument seen (u64::MAX = none); 64-bit arguments equal to u64::MAX are tracked separately
    min_bad: AtomicU64,
    max_is_bad: std::sync::atomic::AtomicBool,
}

impl Sweep {
    fn new() -> Self {
        Sweep { count: AtomicU64::new(0), min_bad: AtomicU64::new(u64::MAX), max_is_bad: std::sync::atomic::AtomicBool::new(false) }
    }
    fn report(&self, x: u64) {
        if x == u64::MAX {
            self.max_is_bad.store(true, Ordering::Relaxed);
        } else {
            self.min_bad.fetch_min(x, Ordering::Relaxed);
        }
    }
    fn witness(&self) -> Option<u64> {
        let m = self.min_bad.load(Ordering::Relaxed);
        if m != u64::MAX {
            Some(m)
        } else if self.max_is_bad.load(Ordering::Relaxed) {
            Some(u64::MAX)
        } else {
            None
        }
    }
    /// check x; returns true when it fails (callers stop their chunk at the first failure)
    #[inline]
    fn probe64(&self, x: u64) -> bool {
        if bad64(x).is_some() {
            self.report(x);
            true
        } else {
            false
        }
    }
}

/// the complete 2^32 domain of the 32-bit pair
fn sweep32(sw: &Sweep) {
    (0u64..(1 << 16)).into_par_iter().for_each(|hi| {
        let mut n = 0u64;
        for lo in 0u64..(1 << 16) {
            let x = ((hi << 16) | lo) as u32;
            if bad32(x).is_some() {
                sw.report(x as u64);
                break;
            }
            n += 1;
        }
        sw.count.fetch_add(n, Ordering::Relaxed);
    });
}

/// a block of 2^bits consecutive 64-bit values shifted left by `shift`, xored with `base`
fn sweep64_block(sw: &Sweep, bits: u32, shift: u32, base: u64) {
    let chunks = 1u64 << (bits.saturating_sub(16));
    let per = 1u64 << bits.min(16);
    (0..chunks).into_par_iter().for_each(|c| {
        for i in 0..per {
            let v = (c * per + i).wrapping_shl(shift) ^ base;
            if sw.probe64(v) {
                break;
            }
        }
        sw.count.fetch_add(per, Ordering::Relaxed);
    });
}

/// The seven invertible stages of Thomas Wang's 64-bit mix, re-implemented here only to GENERATE inputs: a value that is
/// structured (small, few bits, a<<s) *between two stages* corresponds to inputs and hash values that look random.  For every
/// stage boundary i and structured value s the candidates x = (stages 1..i)^-1 (s) and y = (stages i+1..7)(s) are checked with
/// the usual round-trip oracle on the real functions.  If the crate's hash ever stops being this composition the candidates
/// are merely less targeted; the oracle does not depend on the re-implementation.
fn stage_fwd(i: usize, k: u64) -> u64 {
    match i {
        0 => (!k).wrapping_add(k << 21),
        1 => k ^ (k >> 24),
        2 => k.wrapping_mul(265),
        3 => k ^ (k >> 14),
        4 => k.wrapping_mul(21),
        5 => k ^ (k >> 28),
        _ => k.wrapping_add(k << 31),
    }
}
fn unxorshift(k: u64, s: u32) -> u64 {
    let mut x = k;
    let mut sh = s;
    while sh < 64 {
        x ^= x >> sh;
        sh *= 2;
    }
    x
}
fn stage_inv(i: usize, k: u64) -> u64 {
    match i {
        // k = !x + (x << 21) = x * (2^21 - 1) - 1  =>  x = (k + 1) * inv(2^21 - 1)
        0 => k.wrapping_add(1).wrapping_mul(mod_inverse((1u64 << 21) - 1)),
        1 => unxorshift(k, 24),
        2 => k.wrapping_mul(mod_inverse(265)),
        3 => unxorshift(k, 14),
        4 => k.wrapping_mul(mod_inverse(21)),
        5 => unxorshift(k, 28),
        _ => k.wrapping_mul(mod_inverse((1u64 << 31) + 1)),
    }
}
/// inverse of an odd number modulo 2^64 (Newton iteration)
fn mod_inverse(a: u64) -> u64 {
    let mut x = a;
    for _ in 0..6 {
        x = x.wrapping_mul(2u64.wrapping_sub(a.wrapping_mul(x)));
    }
    x
}

fn mid_pipeline(sw: &Sweep, quick: bool) -> Value {
    let c0 = sw.count.load(Ordering::Relaxed);
    // self-check of the re-implementation (informational)
    let conforms = (0u64..1000).all(|x| {
        let v = x.wrapping_mul(0x9E3779B97F4A7C15);
        (0..7).fold(v, |k, i| stage_fwd(i, k)) == int64_hash(v) && (0..7).all(|i| stage_inv(i, stage_fwd(i, v)) == v)
    });
    let small_bits = if quick { 20 } else { 24 };
    (0usize..=7).into_par_iter().for_each(|boundary| {
        let to_input = |s: u64| (0..boundary).rev().fold(s, |k, i| stage_inv(i, k));
        let to_hash = |s: u64| (boundary..7).fold(s, |k, i| stage_fwd(i, k));
        let mut n = 0u64;
        let mut probe = |s: u64| -> bool {
            n += 2;
            sw.probe64(to_input(s)) | sw.probe64(to_hash(s))
        };
        // small values and their complements
        for s in 0u64..(1 << small_bits) {
            if probe(s) | probe(!s) {
                break;
            }
        }
        // a << sh, for a < 2^10, every shift; 2^k +- d
        'o: for sh in 0..64u32 {
            for a in 0u64..(1 << 10) {
                if probe(a << sh) | probe(!(a << sh)) {
                    break 'o;
                }
            }
            for d in 0u64..1024 {
                if probe((1u64 << sh).wrapping_add(d)) | probe((1u64 << sh).wrapping_sub(d)) {
                    break 'o;
                }
            }
        }
        // at most 3 bits set / cleared
        'p: for i in 0..64u32 {
            for j in 0..64u32 {
                for k in 0..64u32 {
                    let v = (1u64 << i) | (1u64 << j) | (1u64 << k);
                    if probe(v) | probe(!v) {
                        break 'p;
                    }
                }
            }
        }
        sw.count.fetch_add(n, Ordering::Relaxed);
    });
    json!({"part": format!("values structured at one of the 8 stage boundaries of the mix (small values < 2^{}, complements, a<<s, 2^k+-d, <=3 bits), mapped to inputs and to hash values through a re-implementation of the stages", small_bits), "count": sw.count.load(Ordering::Relaxed) - c0, "reimplementation_conforms_to_int64_hash": conforms})
}

fn structured64(sw: &Sweep, quick: bool) -> Vec<Value> {
    let mut parts = Vec::new();
    // low and high blocks
    let blk = if quick { 26 } else { 34 };
    let c0 = sw.count.load(Ordering::Relaxed);
    sweep64_block(sw, blk, 0, 0);
    sweep64_block(sw, blk, 64 - blk, 0);
    sweep64_block(sw, blk, 0, u64::MAX); // complements of the low block
    sweep64_block(sw, blk, 16, 0);
    parts.push(json!({"part": format!("blocks of 2^{} consecutive values: low, high (<<{}), complemented low, <<16", blk, 64 - blk), "count": sw.count.load(Ordering::Relaxed) - c0}));
    // a * 2^s for a < 2^16 (quick 2^12), every shift, also complemented
    let c0 = sw.count.load(Ordering::Relaxed);
    let abits = if quick { 12 } else { 16 };
    (0u32..64).into_par_iter().for_each(|s| {
        let mut n = 0;
        for a in 0u64..(1 << abits) {
            let v = a << s;
            if sw.probe64(v) | sw.probe64(!v) | sw.probe64(v.wrapping_sub(1)) {
                break;
            }
            n += 3;
        }
        sw.count.fetch_add(n, Ordering::Relaxed);
    });
    parts.push(json!({"part": format!("a<<s, !(a<<s), (a<<s)-1 for a<2^{}, all 64 shifts", abits), "count": sw.count.load(Ordering::Relaxed) - c0}));
    // at most 4 (thorough: 5) bits set / cleared
    let c0 = sw.count.load(Ordering::Relaxed);
    let five = !quick;
    (0u32..64 * 64).into_par_iter().for_each(|ij| {
        let (i, j) = (ij / 64, ij % 64);
        let mut n = 0;
        'outer: for k in 0..64u32 {
            for l in 0..64u32 {
                let v4 = (1u64 << i) | (1u64 << j) | (1u64 << k) | (1u64 << l);
                if five {
                    for p in 0..64u32 {
                        let v = v4 | (1u64 << p);
                        if sw.probe64(v) | sw.probe64(!v) {
                            break 'outer;
                        }
                        n += 2;
                    }
                } else {
                    if sw.probe64(v4) | sw.probe64(!v4) {
                        break 'outer;
                    }
                    n += 2;
                }
            }
        }
        sw.count.fetch_add(n, Ordering::Relaxed);
    });
    parts.push(json!({"part": format!("all values with at most {0} bits set or at most {0} bits cleared", if five { 5 } else { 4 }), "count": sw.count.load(Ordering::Relaxed) - c0}));
    // carry chains: 2^i +- 2^j +- small
    let c0 = sw.count.load(Ordering::Relaxed);
    (0u32..64).into_par_iter().for_each(|i| {
        let mut n = 0;
        'outer: for j in 0..64u32 {
            for d in 0u64..64 {
                let a = 1u64 << i;
                let b = 1u64 << j;
                for v in [a.wrapping_sub(b).wrapping_add(d), a.wrapping_add(b).wrapping_sub(d), a.wrapping_sub(b).wrapping_sub(d), (a - 1) ^ (b - 1) ^ d] {
                    if sw.probe64(v) {
                        break 'outer;
                    }
                    n += 1;
                }
            }
        }
        sw.count.fetch_add(n, Ordering::Relaxed);
    });
    parts.push(json!({"part": "carry-chain patterns 2^i +- 2^j +- d, (2^i-1)^(2^j-1)^d, d<64", "count": sw.count.load(Ordering::Relaxed) - c0}));
    // orbit walk: x -> hash(x) chains from structured starts (images of images)
    let c0 = sw.count.load(Ordering::Relaxed);
    let steps = if quick { 1u64 << 14 } else { 1u64 << 20 };
    (0u64..256).into_par_iter().for_each(|s| {
        let mut x = s.wrapping_mul(0x0101010101010101);
        let mut y = !x;
        for _ in 0..steps {
            if sw.probe64(x) | sw.probe64(y) {
                break;
            }
            x = int64_hash(x);
            y = int64_hash_inverse(y);
        }
        sw.count.fetch_add(2 * steps, Ordering::Relaxed);
    });
    parts.push(json!({"part": "forward and backward orbits of 256 byte-pattern seeds", "count": sw.count.load(Ordering::Relaxed) - c0}));
    parts.push(mid_pipeline(sw, quick));
    parts
}

pub fn run(ctx: &Ctx) -> i32 {
    let sw32 = Sweep::new();
    sweep32(&sw32);
    let n32 = sw32.count.load(Ordering::Relaxed);
    if let Some(x) = sw32.witness() {
        let w = bad32(x as u32).unwrap_or_default();
        ctx.violation("int32", &format!("32-bit pair: {}", w), json!({"kind": "u32", "x": x}));
    }
    let sw64 = Sweep::new();
    let parts = structured64(&sw64, ctx.quick());
    let n64 = sw64.count.load(Ordering::Relaxed);
    if let Some(x) = sw64.witness() {
        let w = bad64(x).unwrap_or_default();
        ctx.violation("int64", &format!("64-bit pair: {}", w), json!({"kind": "u64", "x": format!("{}", x)}));
    }
    // with a trace-level logger installed (log macros evaluate their arguments only then)
    {
        let bad = crate::common::with_trace_logging(|| {
            for x in (0u64..(1 << 16)).chain((0..64).map(|s| 1u64 << s)).chain((0..64).map(|s| !(1u64 << s))) {
                if x <= u32::MAX as u64 {
                    if let Some(w) = bad32(x as u32) {
                        return Some(w);
                    }
                }
                if let Some(w) = bad64(x) {
                    return Some(w);
                }
            }
            None
        });
        if let Some(w) = bad {
            ctx.violation("logging", &format!("with a trace-level logger installed: {}", w), json!({"kind": "logging"}));
        }
    }
    // call sequences: the four functions are pure, so their results must not depend on which of them ran just before
    // (a memo or scratch state shared between calls or between the 32- and the 64-bit pair shows here)
    let mut n_seq = 0u64;
    {
        let vals: Vec<u64> = (0u64..(1 << 12)).chain((0..32).map(|s| 1u64 << s)).chain((0..32).map(|s| (1u64 << s) - 1)).chain([u32::MAX as u64, 0x4000_8001, 0xffff_0000]).collect();
        let mut bad: Option<String> = None;
        'outer: for &v in &vals {
            let v32 = v as u32;
            // reference values, each computed after an unrelated call
            let _ = int64_hash_inverse(0x1234_5678_9abc_def0);
            let r32 = int32_hash_inverse(v32);
            let _ = int32_hash_inverse(0x1357_9bdf);
            let r64 = int64_hash_inverse(v);
            let _ = int64_hash(0xdead_beef);
            let f32_ = int32_hash(v32);
            let _ = int32_hash(0xdead_beef);
            let f64_ = int64_hash(v);
            type F = (&'static str, fn(u64) -> u64);
            let fs: [F; 4] = [
                ("int32_hash_inverse", |x| int32_hash_inverse(x as u32) as u64),
                ("int64_hash_inverse", int64_hash_inverse),
                ("int32_hash", |x| int32_hash(x as u32) as u64),
                ("int64_hash", int64_hash),
            ];
            let want = [r32 as u64, r64, f32_ as u64, f64_];
            for (i, (ni, fi)) in fs.iter().enumerate() {
                for (j, (nj, fj)) in fs.iter().enumerate() {
                    n_seq += 1;
                    let a = fi(v);
                    let b = fj(v);
                    // a third call with a neighbouring argument in between two equal calls
                    let _ = fi(v ^ 1);
                    let c = fj(v);
                    if a != want[i] || b != want[j] || c != want[j] {
                        bad = Some(format!("{}({:#x}) directly followed by {}({:#x}) returns {:#x} / {:#x} (again after {}({:#x}): {:#x}); each alone returns {:#x} / {:#x}", ni, v, nj, v, a, b, ni, v ^ 1, c, want[i], want[j]));
                        break 'outer;
                    }
                }
            }
            if int64_hash(r64) != v || int32_hash(r32) != v32 {
                bad = Some(format!("round trip of {:#x} fails", v));
                break;
            }
        }
        if let Some(w) = bad {
            ctx.violation("call-sequence", &w, json!({"kind": "call-sequence"}));
        }
    }
    ctx.sample(json!({"u32": "0x40008001", "int32_hash": format!("{:#x}", int32_hash(0x40008001)), "int32_hash_inverse_of_that": format!("{:#x}", int32_hash_inverse(int32_hash(0x40008001)))}));
    ctx.sample(json!({"u64": "0xfffffffffffffffe", "int64_hash": format!("{:#x}", int64_hash(0xfffffffffffffffe)), "int64_hash_inverse_of_that": format!("{:#x}", int64_hash_inverse(int64_hash(0xfffffffffffffffe)))}));
    println!("C19 32-bit: {} values (complete domain); 64-bit: {} structured values", n32, n64);
    let coverage = json!({
        "evaluations": n32 + n64 + n_seq,
        "call_sequences": n_seq,
        "call_sequence_rule": "for 4 163 arguments below 2^32 every ordered pair of the four functions is called back to back on the same number (and once more after a call on a neighbouring number): each result must equal the one obtained after an unrelated call",
        "distinct_nontrivial": n32,
        "rule": "32-bit pair: every one of the 2^32 arguments, both compositions (exhaustive; each value is a distinct case). 64-bit pair: complete structured sub-domains (consecutive blocks, a<<s, <=4 (5) bits set/cleared, carry chains, orbits, and values that are structured at one of the stage boundaries inside the mix), both compositions; the first 2^16 values and all one-bit / all-but-one-bit words are repeated with a trace-level logger installed; distinct_nontrivial counts only the 32-bit values, which are distinct by construction",
        "samples": [{"u32": "0x00000000"}, {"u32": "0xffffffff"}, {"u64": "0x0000000100000000"}, {"u64": "0xfffffffffffffffe"}, {"u64_pattern": "(1<<63)-(1<<21)+5"}],
        "exhaustive": true,
        "exhaustive_scope": "the 32-bit pair only; the 64-bit domain is covered on the listed sub-domains, not completely",
        "u32_values": n32,
        "u64_values": n64,
        "u64_parts": parts,
        "states": n32,
        "transitions": 2 * (n32 + n64),
        "traces_validated_against_impl": n32 + n64,
    });
    ctx.finish(
        "exploration",
        coverage,
        vec!["the 64-bit pair is only checked on structured sub-domains (2^64 values cannot be enumerated; closing it needs a bit-vector solver, a different family)".into()],
    )
}

pub fn replay(_ctx: &Ctx, case: &Value) -> Result<(bool, String), String> {
    if case["kind"].as_str() == Some("logging") {
        return Err("re-derived by running the check itself".into());
    }
    match case["kind"].as_str() {
        Some("u32") => {
            let x = case["x"].as_u64().ok_or("x")? as u32;
            Ok(match bad32(x) {
                Some(w) => (true, w),
                None => (false, format!("{:#x} round-trips", x)),
            })
        }
        Some("u64") => {
            let x: u64 = case["x"].as_str().ok_or("x")?.parse().map_err(|e| format!("{}", e))?;
            Ok(match bad64(x) {
                Some(w) => (true, w),
                None => (false, format!("{:#x} round-trips", x)),
            })
        }
        _ => Err("kind".into()),
    }
}
