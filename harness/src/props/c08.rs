//! C08 — densified one-permutation hashing is an unbiased Jaccard LSH at any fill ratio.
//! Lemma 1 identity on all labellings of a block for both densification algorithms, three views, sketch sizes from
//! m << u to m = 16u (where almost every bin is filled by densification); partition estimates for large sets.

use crate::common::{guarded_mut, splitmix64, Ctx};
use crate::dens::{Dens, FBits, HName};
use crate::lemma1::{check_identity, partition};
use crate::props::c03::{identity_sweep, Variant};
use fnv::FnvHasher;
use probminhash::densminhash::{OptDensMinHash, RevOptDensMinHash};
use probminhash::nohasher::NoHashHasher;
use rayon::prelude::*;
use serde_json::{json, Value};

fn dens_views<S: Dens>(m: usize, items: &[u64]) -> Result<Vec<Vec<u64>>, String> {
    let items = items.to_vec();
    guarded_mut(move || {
        let mut s = S::new(m);
        let _w = crate::common::watched(|| format!("sketch_slice({} items) on a densified sketcher of size {}", items.len(), m));
        s.sketch_slice(&items).map_err(|e| format!("sketch_slice failed: {}", e))?;
        let v = s.views();
        Ok(vec![v.hs, v.v64, v.v32.iter().map(|x| *x as u64).collect()])
    })
    .and_then(|r| r)
}

/// item-wise streaming; every time no bin is empty (so the getters are legal) all three views are read and discarded,
/// as an application polling an intermediate signature would do: reading a view must not change any later view
fn dens_views_polled<S: Dens>(m: usize, items: &[u64]) -> Result<Vec<Vec<u64>>, String> {
    let items = items.to_vec();
    guarded_mut(move || {
        let mut s = S::new(m);
        let _w = crate::common::watched(|| format!("item-wise sketch of {} items with polled views on a densified sketcher of size {}", items.len(), m));
        for x in &items {
            s.sketch(x);
            if s.state().nb_empty == 0 {
                let _ = s.views();
            }
        }
        s.end_sketch();
        let v = s.views();
        vec![v.hs, v.v64, v.v32.iter().map(|x| *x as u64).collect()]
    })
}
/// the two entry points are interchangeable: sets with an odd number of items go through sketch_slice, the others through
/// item-wise sketch + end_sketch, so that in most shapes the two sets of a pair are sketched through different entry points
fn dens_views_mixed<S: Dens>(m: usize, items: &[u64]) -> Result<Vec<Vec<u64>>, String> {
    if items.len() % 2 == 1 {
        return dens_views::<S>(m, items);
    }
    let items = items.to_vec();
    guarded_mut(move || {
        let mut s = S::new(m);
        let _w = crate::common::watched(|| format!("item-wise sketch of {} items on a densified sketcher of size {}", items.len(), m));
        for x in &items {
            s.sketch(x);
        }
        s.end_sketch();
        let v = s.views();
        vec![v.hs, v.v64, v.v32.iter().map(|x| *x as u64).collect()]
    })
}
fn opt_mixed(m: usize, items: &[u64]) -> Result<Vec<Vec<u64>>, String> {
    dens_views_mixed::<OptDensMinHash<f64, u64, FnvHasher>>(m, items)
}
fn rev_mixed(m: usize, items: &[u64]) -> Result<Vec<Vec<u64>>, String> {
    dens_views_mixed::<RevOptDensMinHash<f32, u64, FnvHasher>>(m, items)
}

fn opt_polled(m: usize, items: &[u64]) -> Result<Vec<Vec<u64>>, String> {
    dens_views_polled::<OptDensMinHash<f64, u64, FnvHasher>>(m, items)
}
fn rev_polled(m: usize, items: &[u64]) -> Result<Vec<Vec<u64>>, String> {
    dens_views_polled::<RevOptDensMinHash<f64, u64, FnvHasher>>(m, items)
}

fn opt<F: FBits, H: HName>(m: usize, items: &[u64]) -> Result<Vec<Vec<u64>>, String>
where
    rand::distr::StandardUniform: rand::distr::Distribution<F>,
{
    dens_views::<OptDensMinHash<F, u64, H>>(m, items)
}
fn rev<F: FBits, H: HName>(m: usize, items: &[u64]) -> Result<Vec<Vec<u64>>, String>
where
    rand::distr::StandardUniform: rand::distr::Distribution<F>,
{
    dens_views::<RevOptDensMinHash<F, u64, H>>(m, items)
}

fn variants() -> Vec<Variant> {
    vec![
        Variant { name: "OptDensMinHash<f64,Fnv>", f: opt::<f64, FnvHasher> },
        Variant { name: "RevOptDensMinHash<f64,Fnv>", f: rev::<f64, FnvHasher> },
        Variant { name: "OptDensMinHash<f32,Fnv>", f: opt::<f32, FnvHasher> },
        Variant { name: "RevOptDensMinHash<f32,Fnv>", f: rev::<f32, FnvHasher> },
        Variant { name: "OptDensMinHash<f64,NoHash>", f: opt::<f64, NoHashHasher> },
        Variant { name: "RevOptDensMinHash<f64,NoHash>", f: rev::<f64, NoHashHasher> },
        Variant { name: "OptDensMinHash<f64,Fnv> item-wise, views polled whenever no bin is empty", f: opt_polled },
        Variant { name: "RevOptDensMinHash<f64,Fnv> item-wise, views polled whenever no bin is empty", f: rev_polled },
        Variant { name: "OptDensMinHash<f64,Fnv> slice for odd-sized sets, item-wise for even-sized ones", f: opt_mixed },
        Variant { name: "RevOptDensMinHash<f32,Fnv> slice for odd-sized sets, item-wise for even-sized ones", f: rev_mixed },
    ]
}

/// fraction of (set, bin) pairs filled by densification, for non-vacuity
fn densified_fraction<S: Dens>(m: usize, base: u64, setsize: u64, nsets: u64) -> f64 {
    let mut empty = 0u64;
    for t in 0..nsets {
        let mut s = S::new(m);
        for x in 0..setsize {
            s.sketch(&(base + t * setsize + x));
        }
        empty += s.state().nb_empty.max(0) as u64;
    }
    empty as f64 / (nsets * m as u64) as f64
}

/// Pre-hashed data (no-op hasher) whose 64-bit hashes are related by a simple bit transformation g: A = {h_i}, B = {g(h_i)},
/// plus common items.  A view that is not injective on such related values (a fold of the halves, a truncation) makes the
/// two sets collide where they share nothing.  T labellings per (g, shape, m, sketcher); the mean fraction of equal
/// positions must be J in every view (J = 0: at most 1e-3, leaving room for an accidental 32-bit collision).
fn structured_labellings(ctx: &Ctx, base: u64, t: u64) -> (u64, Vec<Value>) {
    let gs: Vec<(&str, fn(u64) -> u64)> = vec![
        ("swap halves", |x| x.rotate_left(32)),
        ("rotate 16", |x| x.rotate_left(16)),
        ("swap bytes", |x| x.swap_bytes()),
        ("reverse bits", |x| x.reverse_bits()),
        ("flip top bit", |x| x ^ (1 << 63)),
        ("add 2^32", |x| x.wrapping_add(1 << 32)),
        ("complement", |x| !x),
        ("shift into the high half", |x| x << 32),
    ];
    let mut details = Vec::new();
    let mut evals = 0u64;
    for var in variants().iter().filter(|v| v.name.contains("NoHash")) {
        let f = var.f;
        for (gname, g) in &gs {
            for &(ca, cab) in &[(1usize, 0usize), (3, 0), (2, 1)] {
                for &m in &[1usize, 16, 512] {
                    let res: Vec<Result<[f64; 3], String>> = (0..t)
                        .into_par_iter()
                        .map(|tt| {
                            // hashes: packed pairs of small integers (u << 32 | v), u != v, both non-zero
                            let mut hs = Vec::new();
                            let mut k = 0u64;
                            while hs.len() < 2 * ca + cab {
                                let r = splitmix64(base ^ (tt << 20) ^ k);
                                k += 1;
                                let (u, v) = (1 + (r & 0xffff), 1 + ((r >> 16) & 0xffff));
                                let h = if *gname == "shift into the high half" { u } else { (u << 32) | v };
                                if u != v && !hs.contains(&h) && !hs.contains(&g(h)) && g(h) != h {
                                    hs.push(h);
                                }
                            }
                            let common: Vec<u64> = hs[2 * ca..].to_vec();
                            let a: Vec<u64> = hs[..ca].iter().cloned().chain(common.iter().cloned()).collect();
                            let b: Vec<u64> = hs[..ca].iter().map(|h| g(*h)).chain(common.iter().cloned()).collect();
                            // the no-op hasher reads a u64 item big-endian
                            let ia: Vec<u64> = a.iter().map(|h| h.swap_bytes()).collect();
                            let ib: Vec<u64> = b.iter().map(|h| h.swap_bytes()).collect();
                            let va = f(m, &ia)?;
                            let vb = f(m, &ib)?;
                            let mut out = [0f64; 3];
                            for view in 0..3 {
                                out[view] = va[view].iter().zip(vb[view].iter()).filter(|(x, y)| x == y).count() as f64 / m as f64;
                            }
                            Ok(out)
                        })
                        .collect();
                    evals += 2 * t;
                    let j = cab as f64 / (2 * ca + cab) as f64;
                    for view in 0..3 {
                        let mut v = Vec::new();
                        let mut err = None;
                        for r in &res {
                            match r {
                                Ok(o) => v.push(o[view]),
                                Err(e) => err = Some(e.clone()),
                            }
                        }
                        if let Some(e) = err {
                            ctx.violation(&format!("C08-sketch-failure:{}", var.name), &e, json!({"kind": "structured"}));
                            break;
                        }
                        let (mean, se) = crate::common::mean_se(&v);
                        let se_floor = (j * (1. - j) / (m as f64 * t as f64)).sqrt();
                        let bad = if j == 0. { mean > 1e-3 } else { ((mean - j) / se.max(se_floor).max(1e-12)).abs() > 6. };
                        if bad {
                            ctx.violation(
                                &format!("C08-structured:{}:view{}", var.name, view),
                                &format!(
                                    "{} m={}: sets of pre-hashed items A = {{h_i}} + common, B = {{g(h_i)}} + common with g = '{}' ({} own items each, {} common, J = {:.4}): mean fraction of equal positions in the {} view over {} labellings is {:.5}",
                                    var.name, m, gname, ca, cab, j, ["float", "u64", "u32"][view], t, mean
                                ),
                                json!({"kind": "structured", "variant": var.name, "g": gname, "m": m}),
                            );
                            return (evals, details);
                        }
                    }
                    details.push(json!({"variant": var.name, "g": gname, "own": ca, "common": cab, "m": m, "labellings": t}));
                }
            }
        }
    }
    (evals, details)
}

pub fn run(ctx: &Ctx) -> i32 {
    crate::common::install_hang_watchdog(ctx, "model_checking", 30);
    let base = splitmix64(ctx.seed ^ 0xC08) >> 20;
    let nblock = ctx.pick(10usize, 13);
    let umax = ctx.pick(4usize, 5);
    let block: Vec<u64> = (0..nblock as u64).map(|i| base + i).collect();
    let block2: Vec<u64> = (0..nblock as u64).map(|i| (base >> 2) + 104729 * i).collect();
    let ms: Vec<usize> = vec![1, 2, 3, 5, 8, 16, 33, 64];
    let mut idetails = Vec::new();
    let mut totals = (0u64, 0u64, 0u64);
    let mut evals = 0u64;
    identity_sweep(ctx, "C08", &variants(), &ms, &block, umax, &mut idetails, &mut totals);
    identity_sweep(ctx, "C08", &variants()[..2], &[2, 8, 64], &block2, umax.min(4), &mut idetails, &mut totals);
    // non-vacuity: how much of the sketch is produced by densification
    let mut fill = Vec::new();
    for &m in &ms {
        let f = densified_fraction::<OptDensMinHash<f64, u64, FnvHasher>>(m, base, 3, 200);
        fill.push(json!({"m": m, "set_size": 3, "fraction_of_bins_filled_by_densification": f}));
    }
    println!("C08 identity: {} subset triples, {} sketches, {} (triple,view,position) comparisons; densified fraction at m=64, |S|=3: {}", totals.0, totals.1, totals.2, fill.last().map(|v| v["fraction_of_bins_filled_by_densification"].clone()).unwrap_or(json!(null)));
    // ---- resolution of the per-item uniform value (f64 sketchers): two different items must not share their value, otherwise
    // large sets (many items per bin) tie at the bin minimum and the float view collides on different items (bias above J).
    // With 52-bit uniforms the expected number of coinciding pairs among 2^18 items is 2^36/2^53 < 1e-5.
    let n_res: u64 = ctx.pick(1 << 18, 1 << 21);
    for (name, f) in [("OptDensMinHash<f64,Fnv>", opt::<f64, FnvHasher> as fn(usize, &[u64]) -> Result<Vec<Vec<u64>>, String>), ("RevOptDensMinHash<f64,Fnv>", rev::<f64, FnvHasher>)] {
        let mut vals: Vec<u64> = (0..n_res).into_par_iter().filter_map(|i| f(1, &[(base << 4) + i]).ok().map(|v| v[0][0])).collect();
        vals.sort_unstable();
        let dup = vals.windows(2).filter(|w| w[0] == w[1]).count();
        evals += n_res;
        if dup > 0 || vals.len() as u64 != n_res {
            ctx.violation(
                &format!("C08-uniform-resolution:{}", name),
                &format!("{}: among the single-item sketches (m=1) of {} different items, {} pairs share the same float value: the per-item uniform value does not have double resolution, so bins holding many items tie on different items and the float view over-estimates J", name, n_res, dup),
                json!({"kind": "resolution", "variant": name, "n": n_res}),
            );
        }
    }
    // ---- partition: dense and sparse regimes with large sets
    let mut pdetails = Vec::new();
    let cfgs: Vec<(&str, u64, u64, u64, usize, u64, u64)> = vec![
        // name, ca, cb, cab, m, T quick, T thorough
        ("dense 1000/1000/2000 m=64", 1000, 1000, 2000, 64, 200, 5000),
        ("sparse 10/10/20 m=256", 10, 10, 20, 256, 4000, 100_000),
        ("very sparse 1/2/1 m=1024", 1, 2, 1, 1024, 2000, 50_000),
        ("nested 0/30000/10000 m=128", 0, 30_000, 10_000, 128, 30, 600),
        ("lopsided 1/5000/3 m=32", 1, 5000, 3, 32, 200, 5000),
        ("m=1 5/5/5", 5, 5, 5, 1, 40_000, 1_000_000),
    ];
    for (ci, (name, ca, cb, cab, m, tq, tt)) in cfgs.iter().enumerate() {
        for var in variants().iter().take(4) {
            let f = var.f;
            let m = *m;
            let sk = move |items: &[u64]| f(m, items);
            let t = ctx.pick(*tq, *tt);
            for view in 0..3usize {
                let b = (base << 6) + ((ci as u64) << 44);
                let p = match partition(&sk, b, *ca, *cb, *cab, t, view) {
                    Ok(p) => p,
                    Err(e) => {
                        ctx.violation(&format!("C08-sketch-failure:{}", var.name), &e, json!({"kind": "partition", "cfg": name, "variant": var.name}));
                        break;
                    }
                };
                evals += 2 * t;
                let se_floor = (p.j * (1. - p.j) / (m as f64 * t as f64)).sqrt();
                let z = (p.mean - p.j) / p.se.max(se_floor).max(1e-12);
                let mut bad = z.abs() > 6.;
                let mut z2 = f64::NAN;
                if bad {
                    if let Ok(p2) = partition(&sk, b + (1u64 << 40), *ca, *cb, *cab, 4 * t, view) {
                        evals += 8 * t;
                        z2 = (p2.mean - p2.j) / p2.se.max(se_floor / 2.).max(1e-12);
                        bad = z2.abs() > 6. && z2.signum() == z.signum();
                    }
                }
                if bad {
                    ctx.violation(
                        &format!("C08-mean:{}:{}", var.name, name),
                        &format!("{} {} view {}: mean fraction of equal positions {:.6} over {} labellings vs J={:.6} (z={:.1}, confirm {:.1})", var.name, name, view, p.mean, t, p.j, z, z2),
                        json!({"kind": "partition", "cfg": name, "variant": var.name, "view": view}),
                    );
                }
                pdetails.push(json!({"cfg": name, "variant": var.name, "view": (["float", "u64", "u32"][view]), "labellings": t, "J": p.j, "mean": p.mean, "z": z}));
            }
        }
    }
    // ---- an item whose uniform value is exactly 0.0 (found by scanning 2^25 items through the real f32 sketchers) belongs to
    // its set like any other: two sets that share it collide at its bin
    {
        use crate::props::c09::{single_item_scan, zero_draw_streams};
        let n: u64 = ctx.pick(1 << 25, 1 << 27);
        macro_rules! zd {
            ($t:ty, $tag:expr) => {
                match single_item_scan::<$t>(base << 9, n) {
                    Err(w) => ctx.violation(&format!("C08-sketch-failure:{}", $tag), &w, json!({"kind": "zero-draw"})),
                    Ok(z) => {
                        evals += n;
                        if let Some(w) = zero_draw_streams::<$t>(&z, base << 2) {
                            ctx.violation(&format!("C08-zero-draw:{}", $tag), &format!("two sets sharing an item whose uniform value is 0.0 do not collide at its bin: {}", w), json!({"kind": "zero-draw"}));
                        }
                    }
                }
            };
        }
        zd!(OptDensMinHash<f32, u64, FnvHasher>, "OptDensMinHash<f32,Fnv>");
        zd!(RevOptDensMinHash<f32, u64, FnvHasher>, "RevOptDensMinHash<f32,Fnv>");
    }
    let (sevals, sdetails) = structured_labellings(ctx, base, ctx.pick(300, 3000));
    evals += sevals;
    println!("C08 structured labellings: {} configurations", sdetails.len());
    let maxz = pdetails.iter().map(|d| d["z"].as_f64().unwrap_or(0.).abs()).fold(0., f64::max);
    println!("C08 partition: {} configurations, max |z| = {:.2}", pdetails.len(), maxz);
    let coverage = json!({
        "states": totals.1,
        "transitions": totals.0,
        "traces_validated_against_impl": totals.1 + evals,
        "samples": [
            {"identity": {"variant": "RevOptDensMinHash<f32,Fnv>", "m": 64, "shape": [1, 1, 2], "block": block, "views": ["float", "u64", "u32"], "statement": "collisions(p) * 4 == triples * 2 for every position p and view"}},
            {"partition": {"cfg": "very sparse 1/2/1 m=1024"}}
        ],
        "exhaustive": true,
        "exhaustive_scope": "the identity enumerates every labelling of every shape by the block; the partition part is a finite-population statement",
        "evaluations": totals.0 + evals,
        "distinct_nontrivial": totals.1,
        "rule": "for OptDensMinHash and RevOptDensMinHash (f32/f64 float view, u64 view, u32 view; Fnv and no-op hashers), m in {1,2,3,5,8,16,33,64} (from m << |S| to m = 16|S|, > 90% of bins densified), every shape with union <=4 (5) and EVERY assignment of block identifiers (10 (13) ids, two blocks): per position and view, collisions * u == triples * |A∩B| exactly (a broken identity is arbitrated on 2e5 fresh labellings before it is reported); distinct = distinct subsets sketched; plus the distinctness of the per-item uniform value over 2^18 (2^21) items for the f64 sketchers, 6 large-set shapes x 4 variants x 3 views on T disjoint labellings within 6 standard errors of J, and streams containing an item whose f32 uniform value is exactly 0.0 (witnesses found by scanning 2^25 (2^27) items through the real code): sets sharing it collide at its bin",
        "identity": idetails,
        "identity_subset_triples": totals.0,
        "identity_comparisons": totals.2,
        "densified_fraction": fill,
        "partition": pdetails,
        "structured_labellings": {"configurations": sdetails.len(), "what": "no-op hasher, items whose 64-bit hashes are packed pairs (u<<32|v) and their images under 8 bit transformations (swap halves, rotate 16, swap bytes, reverse bits, flip top bit, add 2^32, complement, shift into the high half) as the two sets' own items, 3 shapes, m in {1,16,512}, both sketchers, 3 views: mean fraction of equal positions = J (J=0: <= 1e-3)"},
    });
    ctx.finish(
        "model_checking",
        coverage,
        vec!["Lemma 1 needs a block without ties of the per-item uniform values inside a bin and without 32-bit collisions of the u32 view; a broken identity is arbitrated against the expectation before it is reported".into()],
    )
}

pub fn replay(_ctx: &Ctx, case: &Value) -> Result<(bool, String), String> {
    match case["kind"].as_str() {
        Some("identity") => {
            let name = case["variant"].as_str().ok_or("variant")?;
            let m = case["m"].as_u64().ok_or("m")? as usize;
            let sh: Vec<usize> = case["shape"].as_array().ok_or("shape")?.iter().map(|v| v.as_u64().unwrap_or(0) as usize).collect();
            let block: Vec<u64> = case["block"].as_array().ok_or("block")?.iter().map(|v| v.as_u64().unwrap_or(0)).collect();
            let var = variants().into_iter().find(|v| v.name == name).ok_or("variant")?;
            let f = var.f;
            let sk = move |items: &[u64]| f(m, items);
            let o = check_identity(&sk, &block, sh[0], sh[1], sh[2]);
            Ok((o.broken.is_some() || o.error.is_some(), format!("identity broken: {:?} error: {:?}", o.broken, o.error)))
        }
        Some(_) => Err("statistical cases are re-derived by running the check itself (deterministic in VERIF_SEED)".into()),
        None => Err("kind".into()),
    }
}
