//! C01 — ProbMinHash estimates the probability-Jaccard index without bias.
//! Engine D: (1) single-item race tables over a block of identifiers against the exponential law the algorithm
//! relies on; (2) end-to-end partition estimates of J_P and of the MSE bound over a catalogue of weighted-set shapes;
//! (3) per-item winning frequencies of a single weighted set.

use crate::common::{ks_distance, splitmix64, Ctx};
use crate::props::c02::{run_variant, Entry, Variant};
use rayon::prelude::*;
use serde_json::{json, Value};

const VARS: [Variant; 6] = [Variant::P2, Variant::P3, Variant::P3a, Variant::P3aShaU64, Variant::P2NoHash, Variant::P3aNoHash];

fn entry_for(v: Variant, alt: bool) -> Entry {
    match (v, alt) {
        (Variant::P2 | Variant::P2NoHash, false) | (Variant::P3 | Variant::P3NoHash, false) => Entry::Item,
        (Variant::P2 | Variant::P2NoHash, true) => Entry::HashMap,
        (Variant::P3 | Variant::P3NoHash, true) => Entry::IdxMap,
        (_, false) => Entry::IdxMap,
        (_, true) => Entry::HashMap,
    }
}

// ------------------------------------------------------------------------------------------------ (1) race tables

struct TableOut {
    worst_ks: f64,
    worst_pos: usize,
    argmin_chi2: f64,
    n: u64,
    incomplete: u64,
}

fn race_tables(v: Variant, m: usize, base: u64, n: u64) -> Result<TableOut, String> {
    let rows: Vec<Result<Vec<f64>, String>> = (0..n)
        .into_par_iter()
        .map(|i| match run_variant(v, entry_for(v, false), m, &[(base + i, 1.0)]) {
            Some(Ok((_, regs))) => Ok(regs.iter().map(|b| f64::from_bits(*b)).collect()),
            Some(Err(p)) => Err(p),
            None => Err("entry".into()),
        })
        .collect();
    let rate = match v {
        Variant::P2 | Variant::P2NoHash => 1. / m as f64,
        _ => ((m as f64) / (m as f64 - 1.)).ln(),
    };
    let mut cols: Vec<Vec<f64>> = vec![Vec::with_capacity(n as usize); m];
    let mut argmin = vec![0u64; m];
    let mut incomplete = 0u64;
    for r in rows {
        let r = r?;
        if r.iter().any(|x| *x >= f64::MAX) {
            incomplete += 1;
            continue;
        }
        let mut best = 0;
        for k in 0..m {
            cols[k].push(r[k]);
            if r[k] < r[best] {
                best = k;
            }
        }
        argmin[best] += 1;
    }
    let mut worst = 0.;
    let mut worst_pos = 0;
    for k in 0..m {
        let nn = cols[k].len() as f64;
        let d = ks_distance(&mut cols[k], |x| 1. - (-rate * x).exp()) * nn.sqrt();
        if d > worst {
            worst = d;
            worst_pos = k;
        }
    }
    let tot: u64 = argmin.iter().sum();
    let e = tot as f64 / m as f64;
    let chi2: f64 = argmin.iter().map(|c| (*c as f64 - e) * (*c as f64 - e) / e).sum();
    Ok(TableOut { worst_ks: worst, worst_pos, argmin_chi2: chi2, n, incomplete })
}

// ------------------------------------------------------------------------------------------------ (2) shapes

/// a shape: per role the weight in A and in B (0 = absent)
#[derive(Clone)]
struct Shape {
    name: &'static str,
    roles: Vec<(f64, f64)>,
}

fn jp(roles: &[(f64, f64)]) -> f64 {
    let mut j = 0.;
    for &(wa, wb) in roles {
        if wa > 0. && wb > 0. {
            let mut den = 0.;
            for &(xa, xb) in roles {
                den += (xa / wa).max(xb / wb);
            }
            j += 1. / den;
        }
    }
    j
}

fn shapes() -> Vec<Shape> {
    let mut v = Vec::new();
    let mut r: Vec<(f64, f64)> = Vec::new();
    for _ in 0..3 {
        r.push((1., 0.));
    }
    for _ in 0..3 {
        r.push((0., 1.));
    }
    for _ in 0..4 {
        r.push((1., 1.));
    }
    v.push(Shape { name: "equal weights, partial overlap 3/3/4", roles: r });
    v.push(Shape { name: "identical sets, varied weights", roles: vec![(0.5, 0.5), (1., 1.), (3., 3.), (10., 10.), (0.01, 0.01)] });
    v.push(Shape { name: "disjoint sets", roles: vec![(1., 0.), (2., 0.), (0., 3.), (0., 0.5)] });
    v.push(Shape { name: "nested: A inside B", roles: vec![(1., 1.), (2., 2.), (0., 1.), (0., 4.), (0., 0.5)] });
    v.push(Shape { name: "weights differing by 1e6", roles: vec![(1e6, 1.), (1., 1e6), (1., 1.), (1e-3, 1e3), (5., 0.), (0., 5e5)] });
    let mut r = vec![(1.0, 1.0)];
    for i in 0..300 {
        r.push((0., 0.5 + (i % 7) as f64));
    }
    v.push(Shape { name: "one item against 300", roles: r });
    let mut r = Vec::new();
    for i in 0..200u64 {
        let h = splitmix64(i + 77);
        let wa = if h % 4 == 0 { 0. } else { 0.1 + (h >> 8) as f64 % 17.0 };
        let wb = if h % 5 == 0 { 0. } else { 0.1 + (h >> 20) as f64 % 23.0 };
        if wa > 0. || wb > 0. {
            r.push((wa, wb));
        }
    }
    v.push(Shape { name: "200 items, pseudo-random weights", roles: r });
    v.push(Shape { name: "common items, different weights", roles: vec![(1., 2.), (3., 1.), (2., 2.), (1., 5.), (4., 0.5)] });
    v.push(Shape { name: "two items", roles: vec![(1., 3.), (2., 1.)] });
    v.push(Shape { name: "two items, weights 10:1 swapped", roles: vec![(10., 1.), (1., 10.)] });
    v.push(Shape { name: "three items", roles: vec![(1., 2.), (2., 1.), (1., 1.)] });
    v.push(Shape { name: "four items", roles: vec![(1., 3.), (2., 1.), (1., 1.), (4., 4.)] });
    v
}

/// the same shapes at extreme absolute scales (J_P does not depend on the scale; race values scale as 1/w, so anything
/// compared against an absolute constant shows here)
/// shapes whose absent items are fed as explicit zero-weight entries, placed before, between and after the others
fn zero_shapes() -> Vec<Shape> {
    vec![
        Shape { name: "explicit zero-weight entries around common items", roles: vec![(0., 1.), (1., 1.), (1., 0.), (2., 2.), (0., 3.), (1., 1.), (0., 0.), (3., 3.)] },
        Shape { name: "explicit zero-weight entries, identical sets otherwise", roles: vec![(0., 0.), (1., 1.), (0., 0.), (0., 0.), (2., 2.), (0.5, 0.5), (0., 0.)] },
    ]
}

fn scaled_shapes() -> Vec<Shape> {
    let mut v = Vec::new();
    for (sname, s) in [("x 2^70", 2f64.powi(70)), ("x 2^-70", 2f64.powi(-70)), ("x 1e15", 1e15), ("x 2^600", 2f64.powi(600))] {
        for (name, roles) in [
            ("common items, different weights", vec![(1., 2.), (3., 1.), (2., 2.), (1., 5.), (4., 0.5)]),
            ("two items 1:3", vec![(1., 1.), (3., 3.), (0., 1.)]),
        ] {
            let n: &'static str = Box::leak(format!("{} {}", name, sname).into_boxed_str());
            v.push(Shape { name: n, roles: roles.iter().map(|(a, b): &(f64, f64)| (a * s, b * s)).collect() });
        }
    }
    v
}

struct PartOut {
    mean: f64,
    se: f64,
    mse: f64,
    mse_se: f64,
    t: u64,
    /// per role: number of positions of sig(A) won
    wins_a: Vec<u64>,
}

/// when set, every set is fed in two calls (lighter half first, so that the two calls see different heaviest weights)
/// when set, zero-weight roles are passed as explicit zero-weight entries (legal for the container entry points of 3a and
/// 3a-Sha, which accept weight >= 0; the crate's own tests insert such entries): they must not change anything
static ZERO_MODE: std::sync::atomic::AtomicBool = std::sync::atomic::AtomicBool::new(false);
/// when set, role 0 of every labelling carries the identifier the sketchers were given as their placeholder object
/// (u64::MAX): an item that equals the placeholder is an item like any other
static PLACEHOLDER_ITEM_MODE: std::sync::atomic::AtomicBool = std::sync::atomic::AtomicBool::new(false);
static SPLIT_MODE: std::sync::atomic::AtomicBool = std::sync::atomic::AtomicBool::new(false);

fn partition(v: Variant, alt: bool, m: usize, sh: &Shape, t: u64, base: u64) -> Result<PartOut, String> {
    let split = SPLIT_MODE.load(std::sync::atomic::Ordering::Relaxed);
    let zeros = ZERO_MODE.load(std::sync::atomic::Ordering::Relaxed);
    let ph = PLACEHOLDER_ITEM_MODE.load(std::sync::atomic::Ordering::Relaxed);
    let nr = sh.roles.len() as u64;
    let j = jp(&sh.roles);
    // accumulate moments chunk-wise (no per-labelling storage): n, sum x, sum x^2, sum d^2, sum d^4 with d = x - J_P
    let nchunks = (t + 1023) / 1024;
    let acc: Vec<Result<([f64; 5], Vec<u64>), String>> = (0..nchunks)
        .into_par_iter()
        .map(|c| {
            let mut mom = [0f64; 5];
            let mut wins = vec![0u64; nr as usize];
            for tt in (c * 1024)..((c + 1) * 1024).min(t) {
                let o = base + tt * nr;
                let wa: Vec<(u64, f64)> = sh.roles.iter().enumerate().filter(|(_, w)| w.0 > 0. || zeros).map(|(r, w)| (if ph && r == 0 { u64::MAX } else { o + r as u64 }, w.0)).collect();
                let wb: Vec<(u64, f64)> = sh.roles.iter().enumerate().filter(|(_, w)| w.1 > 0. || zeros).map(|(r, w)| (if ph && r == 0 { u64::MAX } else { o + r as u64 }, w.1)).collect();
                let (mut wa, mut wb) = (wa, wb);
                let run = |w: &mut Vec<(u64, f64)>| {
                    if split && w.len() >= 2 {
                        w.sort_by(|a, b| a.1.partial_cmp(&b.1).unwrap());
                        run_variant(v, Entry::Split(w.len() / 2), m, w)
                    } else {
                        run_variant(v, entry_for(v, alt), m, w)
                    }
                };
                let sa = run(&mut wa).ok_or("entry")??.0;
                let sb = run(&mut wb).ok_or("entry")??.0;
                let eq = sa.iter().zip(sb.iter()).filter(|(x, y)| x == y).count();
                for s in &sa {
                    let r = if ph && *s == u64::MAX { 0 } else { s.wrapping_sub(o) };
                    if r < nr {
                        wins[r as usize] += 1;
                    }
                }
                let x = eq as f64 / m as f64;
                let d2 = (x - j) * (x - j);
                mom[0] += 1.;
                mom[1] += x;
                mom[2] += x * x;
                mom[3] += d2;
                mom[4] += d2 * d2;
            }
            Ok((mom, wins))
        })
        .collect();
    let mut mom = [0f64; 5];
    let mut wins_a = vec![0u64; nr as usize];
    for a in acc {
        let (mm, w) = a?;
        for i in 0..5 {
            mom[i] += mm[i];
        }
        for (i, c) in w.iter().enumerate() {
            wins_a[i] += c;
        }
    }
    let n = mom[0];
    let mean = mom[1] / n;
    let var = ((mom[2] / n - mean * mean) * n / (n - 1.).max(1.)).max(0.);
    let se = (var / n).sqrt();
    let mse = mom[3] / n;
    let var_d2 = ((mom[4] / n - mse * mse) * n / (n - 1.).max(1.)).max(0.);
    let mse_se = (var_d2 / n).sqrt();
    Ok(PartOut { mean, se, mse, mse_se, t, wins_a })
}

/// exploratory scan (VERIF_C01_SCAN=1): MSE / bound of the ProbMinHash3 family on tiny sets
fn scan() {
    let small: Vec<(&str, Vec<(f64, f64)>)> = vec![
        ("(1,3),(2,1)", vec![(1., 3.), (2., 1.)]),
        ("(1,1),(1,1)", vec![(1., 1.), (1., 1.)]),
        ("(1,1),(1,0)", vec![(1., 1.), (1., 0.)]),
        ("(1,1),(1,0),(0,1)", vec![(1., 1.), (1., 0.), (0., 1.)]),
        ("(1,2),(2,1),(1,1)", vec![(1., 2.), (2., 1.), (1., 1.)]),
        ("(1,1)x2,(1,0),(0,1)", vec![(1., 1.), (1., 1.), (1., 0.), (0., 1.)]),
        ("(1,3),(2,1),(1,1),(4,4)", vec![(1., 3.), (2., 1.), (1., 1.), (4., 4.)]),
        ("5 items mixed", vec![(1., 2.), (3., 1.), (2., 2.), (1., 5.), (4., 0.5)]),
        ("8 items", vec![(1., 2.), (3., 1.), (2., 2.), (1., 5.), (4., 0.5), (1., 0.), (0., 2.), (3., 3.)]),
        ("(10,1),(1,10)", vec![(10., 1.), (1., 10.)]),
        ("(100,1),(1,100),(1,1)", vec![(100., 1.), (1., 100.), (1., 1.)]),
    ];
    for (name, roles) in small {
        let sh = Shape { name: "scan", roles: roles.clone() };
        let j = jp(&roles);
        for v in [Variant::P2, Variant::P3] {
            let mut line = format!("{:28} {:?} J={:.4}", name, v, j);
            for m in [2usize, 3, 4, 5, 8, 16] {
                let p = partition(v, false, m, &sh, 400_000, 1 << 50).unwrap();
                let bound = j * (1. - j) / m as f64;
                line += &format!(" | m={} {:.3} (z {:.0})", m, p.mse / bound, (p.mse - bound) / p.mse_se);
            }
            println!("{}", line);
        }
    }
}

/// An item that equals the placeholder object given to new() is an item like any other: the signature of a non-empty
/// weighted set must not depend on the placeholder (every position is filled).  Exact: for T labellings of two shapes
/// and m in {2, 8, 33} each sketcher is built twice, once with the first item of the set as its placeholder and once
/// with an identifier outside the set; the two signatures must be identical.  (A statistical version with one fixed
/// identifier in every labelling would not be an expectation over fresh identifiers - see DESIGN 9.3.)
fn placeholder_is_an_item(t: u64, base: u64) -> (u64, Option<String>) {
    use fnv::FnvHasher;
    use indexmap::IndexMap;
    use probminhash::probminhasher::{ProbMinHash2, ProbMinHash3, ProbMinHash3a, ProbMinHash3aSha};
    let shapes: [&[f64]; 3] = [&[1., 3., 2., 1., 4.], &[10., 1.], &[0.5]];
    let mut n = 0u64;
    for &m in &[2usize, 8, 33] {
        for w in shapes.iter() {
            for tt in 0..t {
                let o = base + tt * 8;
                let items: Vec<(u64, f64)> = w.iter().enumerate().map(|(i, x)| (o + i as u64, *x)).collect();
                let outside = o + 7;
                let r = crate::common::guarded_mut(|| -> Option<String> {
                    let mut sigs: Vec<(&str, Vec<u64>, Vec<u64>)> = Vec::new();
                    for ph in [items[0].0, outside] {
                        let im: IndexMap<u64, f64> = items.iter().cloned().collect();
                        let mut p2 = ProbMinHash2::<u64, FnvHasher>::new(m, ph);
                        let mut p3 = ProbMinHash3::<u64, FnvHasher>::new(m, ph);
                        for (k, x) in &items {
                            p2.hash_item(*k, *x);
                            p3.hash_item(*k, x);
                        }
                        let mut p3a = ProbMinHash3a::<u64, FnvHasher>::new(m, ph);
                        p3a.hash_weigthed_idxmap(&im);
                        let mut sha = ProbMinHash3aSha::<u64>::new(m, ph);
                        sha.hash_weigthed_idxmap(&im);
                        for (name, sg) in [("ProbMinHash2", p2.get_signature().clone()), ("ProbMinHash3", p3.get_signature().clone()), ("ProbMinHash3a", p3a.get_signature().clone()), ("ProbMinHash3aSha", sha.get_signature().clone())] {
                            match sigs.iter_mut().find(|e| e.0 == name) {
                                None => sigs.push((name, sg, Vec::new())),
                                Some(e) => e.2 = sg,
                            }
                        }
                    }
                    for (name, a, b) in sigs {
                        if a != b {
                            return Some(format!("{} m={} weighted set {:?}: signature {:?} when the sketcher's placeholder object is the item {}, {:?} when it is {} (not in the set)", name, m, items, a, items[0].0, b, outside));
                        }
                    }
                    None
                });
                n += 8;
                match r {
                    Ok(None) => {}
                    Ok(Some(w)) => return (n, Some(w)),
                    Err(p) => return (n, Some(format!("panic: {}", p))),
                }
            }
        }
    }
    (n, None)
}

pub fn run(ctx: &Ctx) -> i32 {
    if std::env::var("VERIF_C01_SCAN").is_ok() {
        scan();
        return 0;
    }
    let base = splitmix64(ctx.seed ^ 0xC01) >> 14;
    let mut evals = 0u64;
    // ---- (1) race tables
    let n_tab: u64 = ctx.pick(1 << 19, 1 << 22);
    let ms_tab: Vec<usize> = ctx.pick(vec![2, 3, 4, 8, 16], vec![2, 3, 4, 8, 16, 64, 256]);
    let mut tdetails = Vec::new();
    for v in [Variant::P2, Variant::P3, Variant::P3aShaU64, Variant::P2NoHash, Variant::P3NoHash] {
        for &m in &ms_tab {
            let n = (if v == Variant::P3aShaU64 { n_tab / 2 } else { n_tab }).min((1u64 << 25) / m as u64);
            let exceed = |o: &TableOut| -> Option<String> {
                let mut w = Vec::new();
                if o.worst_ks > 3.4 {
                    w.push(format!("single-item race values at position {} do not follow the exponential law (sqrt(N) KS = {:.2})", o.worst_pos, o.worst_ks));
                }
                let d = (m - 1) as f64;
                if d > 0. && crate::common::chi2_sf(o.argmin_chi2, d) < 1e-9 {
                    w.push(format!("the position of an item's smallest value is not uniform (chi2 = {:.1} on {} d.f.)", o.argmin_chi2, d));
                }
                if o.incomplete > 0 {
                    w.push(format!("{} single-item runs left positions unfilled", o.incomplete));
                }
                if w.is_empty() {
                    None
                } else {
                    Some(w.join("; "))
                }
            };
            let case = json!({"kind": "tables", "variant": format!("{:?}", v), "m": m, "n": n, "base": base.to_string()});
            match race_tables(v, m, base, n) {
                Err(e) => ctx.violation(&format!("tables-panic:{:?}", v), &e, case),
                Ok(o) => {
                    evals += n;
                    tdetails.push(json!({"variant": format!("{:?}", v), "m": m, "items": n, "worst_sqrtN_KS": o.worst_ks, "argmin_chi2": o.argmin_chi2}));
                    if let Some(w) = exceed(&o) {
                        match race_tables(v, m, base + (1 << 40), 4 * n) {
                            Ok(o2) => {
                                evals += 4 * n;
                                if let Some(w2) = exceed(&o2) {
                                    ctx.violation(&format!("race-law:{:?}:m={}", v, m), &format!("{:?} m={}: {} (confirmed on a 4x larger fresh block: {})", v, m, w, w2), case);
                                } else {
                                    ctx.note(format!("{:?} m={} race-table exceedance not confirmed: {}", v, m, w));
                                }
                            }
                            Err(e) => ctx.violation(&format!("tables-panic:{:?}", v), &e, case),
                        }
                    }
                }
            }
        }
    }
    let worst_ks = tdetails.iter().map(|d| d["worst_sqrtN_KS"].as_f64().unwrap_or(0.)).fold(0., f64::max);
    println!("C01 race tables: {} (variant,m) configurations, worst sqrt(N) KS = {:.2}", tdetails.len(), worst_ks);
    // ---- an item equal to the placeholder object
    {
        let (n, bad) = placeholder_is_an_item(ctx.pick(2000, 50_000), base ^ 0x5151_0000_0000);
        evals += n;
        if let Some(w) = bad {
            ctx.violation("placeholder-is-an-item", &w, json!({"kind": "placeholder-item"}));
        }
    }
    // ---- (2),(3) end-to-end partition
    let ms: Vec<usize> = ctx.pick(vec![2, 3, 8, 32], vec![2, 3, 4, 8, 32, 128]);
    let budget: u64 = ctx.pick(1_200_000, 40_000_000); // item insertions per configuration
    let mut pdetails = Vec::new();
    let mut maxz: f64 = 0.;
    let mut cfg_i = 0u64;
    let n_plain = shapes().len();
    for (shi, sh, split) in shapes()
        .into_iter()
        .chain(scaled_shapes())
        .enumerate()
        .map(|(i, s)| (i, s, false))
        // the same sets fed in two calls (lighter half first): a few shapes, one size, every variant
        .chain(shapes().into_iter().filter(|s| ["weights differing by 1e6", "common items, different weights", "nested: A inside B", "four items"].contains(&s.name)).map(|s| (usize::MAX, s, true)))
        // explicit zero-weight entries: container entry points of 3a / 3a-Sha (both), one size
        .chain(zero_shapes().into_iter().map(|s| (usize::MAX - 1, s, false)))
        // (an item whose identifier is the sketcher's placeholder object is checked exactly, see placeholder_is_an_item)
    {
        SPLIT_MODE.store(split, std::sync::atomic::Ordering::Relaxed);
        let zero_mode = shi == usize::MAX - 1;
        ZERO_MODE.store(zero_mode, std::sync::atomic::Ordering::Relaxed);
        let ph_mode = shi == usize::MAX - 2;
        PLACEHOLDER_ITEM_MODE.store(ph_mode, std::sync::atomic::Ordering::Relaxed);
        let scaled = shi >= n_plain;
        let j = jp(&sh.roles);
        let sumw: f64 = sh.roles.iter().map(|w| w.0).sum();
        // scaled shapes: one size, both entry points of every variant
        let ms_here: Vec<usize> = if scaled || split { vec![8] } else { ms.clone() };
        for &m in &ms_here {
            for (vi, v) in VARS.iter().enumerate().flat_map(|x| if scaled { vec![x, x] } else { vec![x] }) {
                if zero_mode && !matches!(v, Variant::P3a | Variant::P3aShaU64 | Variant::P3aNoHash) {
                    continue;
                }
                cfg_i += 1;
                let alt = (cfg_i + vi as u64) % 2 == 0;
                let cost = if *v == Variant::P3aShaU64 { 4 } else { 1 };
                let t = (budget / (2 * sh.roles.len() as u64 * cost) / if scaled { 4 } else { 1 }).clamp(200, ctx.pick(40_000, 1_000_000));
                let b0 = base + (cfg_i << 40);
                let p = match partition(*v, alt, m, &sh, t, b0) {
                    Ok(p) => p,
                    Err(e) => {
                        ctx.violation(&format!("panic:{:?}", v), &format!("{:?} m={} shape '{}': {}", v, m, sh.name, e), json!({"kind": "shape", "variant": format!("{:?}", v), "m": m, "shape": sh.name}));
                        continue;
                    }
                };
                evals += 2 * t;
                let bound = j * (1. - j) / m as f64;
                let se_floor = (bound / t as f64).sqrt();
                let exact_case = j == 0. || (j - 1.).abs() < 1e-15;
                let z = (p.mean - j) / p.se.max(se_floor).max(1e-12);
                let zmse = (p.mse - bound) / p.mse_se.max(1e-12);
                let mut bad_mean = if exact_case { (p.mean - j).abs() > 1e-12 } else { z.abs() > 6. };
                let mut bad_mse = !exact_case && zmse > 6.;
                // single set: position wins of sig(A) per role vs w_d / sum w
                let mut worst_win: f64 = 0.;
                let mut worst_role = 0;
                let npos = (t * m as u64) as f64;
                for (r, w) in sh.roles.iter().enumerate() {
                    if w.0 > 0. {
                        let pr = w.0 / sumw;
                        let zz = (p.wins_a[r] as f64 - npos * pr) / (npos * pr * (1. - pr)).sqrt().max(1e-9);
                        // positions of one sketch are not independent: the binomial sd is an upper bound for ProbMinHash3, exact for m=1
                        if zz.abs() > worst_win {
                            worst_win = zz.abs();
                            worst_role = r;
                        }
                    }
                }
                let mut bad_win = sh.roles.len() > 1 && worst_win > 6.;
                let mut confirm = None;
                if (bad_mean && !exact_case) || bad_mse || bad_win {
                    if let Ok(p2) = partition(*v, alt, m, &sh, 4 * t, b0 + (1 << 39)) {
                        evals += 8 * t;
                        let z2 = (p2.mean - j) / p2.se.max(se_floor / 2.).max(1e-12);
                        let zm2 = (p2.mse - bound) / p2.mse_se.max(1e-12);
                        let npos2 = (4 * t * m as u64) as f64;
                        let pr = sh.roles[worst_role].0 / sumw;
                        let zw2 = (p2.wins_a[worst_role] as f64 - npos2 * pr) / (npos2 * pr * (1. - pr)).sqrt().max(1e-9);
                        bad_mean = bad_mean && z2.abs() > 6. && z2.signum() == z.signum();
                        bad_mse = bad_mse && zm2 > 6.;
                        bad_win = bad_win && zw2.abs() > 6.;
                        confirm = Some((z2, zm2, zw2));
                    }
                }
                maxz = maxz.max(z.abs());
                let case = json!({"kind": "shape", "variant": format!("{:?}", v), "m": m, "shape": sh.name, "alt_entry": alt, "two_calls": split, "placeholder_item": ph_mode, "t": t, "base": b0.to_string()});
                if bad_mean {
                    ctx.violation(
                        &format!("mean:{:?}:{}", v, sh.name),
                        &format!("{:?} ({:?}) m={} shape '{}': mean fraction of equal positions {:.6} over {} labellings vs J_P = {:.6} (z = {:.1}, confirm {:?})", v, entry_for(*v, alt), m, sh.name, p.mean, t, j, z, confirm),
                        case.clone(),
                    );
                }
                if bad_mse {
                    // the ProbMinHash3 family couples the positions (one point per unit interval shared by all m slots); for
                    // m <= 3 and sets of 2-3 items this is a recorded finding, identified by exactly that region
                    let key = if *v != Variant::P2 && *v != Variant::P2NoHash && m <= 3 && sh.roles.len() <= 3 {
                        "mse-above-bound:ProbMinHash3-family:m<=3:sets-of-2-3-items".to_string()
                    } else {
                        format!("mse:{:?}:{}:m={}", v, sh.name, m)
                    };
                    ctx.violation(
                        &key,
                        &format!("{:?} m={} shape '{}': mean squared error {:.4e} exceeds J_P(1-J_P)/m = {:.4e} (z = {:.1}, confirm {:?})", v, m, sh.name, p.mse, bound, zmse, confirm),
                        case.clone(),
                    );
                }
                if bad_win {
                    ctx.violation(
                        &format!("single-set-wins:{:?}:{}", v, sh.name),
                        &format!(
                            "{:?} m={} shape '{}': item of weight {} wins {:.5} of the positions of its set's signature, expected w/sum(w) = {:.5} ({:.1} sigma, confirm {:?})",
                            v,
                            m,
                            sh.name,
                            sh.roles[worst_role].0,
                            p.wins_a[worst_role] as f64 / npos,
                            sh.roles[worst_role].0 / sumw,
                            worst_win,
                            confirm
                        ),
                        case,
                    );
                }
                if cfg_i % 37 == 1 {
                    ctx.sample(json!({"shape": sh.name, "roles_weight_in_A_and_B": sh.roles.iter().take(6).collect::<Vec<_>>(), "variant": format!("{:?}", v), "entry": format!("{:?}", entry_for(*v, alt)), "m": m,
                        "labellings": t, "first_labelling_ids_start_at": b0, "J_P": j, "mean_fraction_equal": p.mean, "z": z}));
                }
                pdetails.push(json!({"shape": sh.name, "variant": format!("{:?}", v), "entry": if split { "two calls (lighter half first)".to_string() } else { format!("{:?}", entry_for(*v, alt)) }, "m": m, "labellings": t, "J_P": j, "mean": p.mean, "z": z,
                    "mse_over_bound": if bound > 0. { p.mse / bound } else { 0. }, "z_mse": zmse, "worst_win_sigma": worst_win}));
            }
        }
    }
    SPLIT_MODE.store(false, std::sync::atomic::Ordering::Relaxed);
    ZERO_MODE.store(false, std::sync::atomic::Ordering::Relaxed);
    PLACEHOLDER_ITEM_MODE.store(false, std::sync::atomic::Ordering::Relaxed);
    println!("C01 end-to-end: {} configurations, max |z| = {:.2}", pdetails.len(), maxz);
    let coverage = json!({
        "evaluations": evals,
        "distinct_nontrivial": pdetails.len() as u64 + tdetails.len() as u64 * n_tab / 4,
        "rule": "(1) for every identifier of a block of 2^17 (2^21) and m in {2,3,4,8,16,(64,256)}, variants 2, 3 (Fnv and no-op hashers) and 3a-Sha: the single-item sketch is computed by the real code and the per-position register (hook H2) law is compared with Exp(1/m) (variant 2) resp. Exp(ln(m/(m-1))) (variants 3) by KS, the position of the minimum with the uniform law by chi2; (1b) exact: 2000 (50000) labellings x 3 small sets x m in {2,8,33} x 4 variants sketched twice, with the set's first item and with an outside identifier as the sketcher's placeholder object: identical signatures; (2) 12 weighted-set shapes, 2 more whose absent items are explicit zero-weight entries (container entry points of 3a / 3a-Sha, m = 8), 4 of them again with every set fed in two calls (lighter half first; m = 8), plus 8 scaled ones (two shapes with all weights multiplied by 2^70, 2^-70, 1e15, 2^600; m=8, both entry points of every variant) (equal weights, identical, disjoint, nested, weights differing by 1e6, 1 vs 300, 200 pseudo-random weights, common items with different weights, sets of two, three and four items) x m in {2,3,8,32,(4,128)} x 6 variants (2, 3, 3a, 3a-Sha, and 2 / 3a with the no-op hasher) x alternating entry points (hash_item / IndexMap / HashMap) on T disjoint labellings: |mean - J_P| <= 6 se with J_P computed from its definition, MSE <= J_P(1-J_P)/m + 6 se; (3) on the same runs the share of positions won by each item of A against w/sum(w); exceedances are confirmed on a 4x larger fresh block; distinct = configurations + block elements (one per identifier, conservatively a quarter counted)",
        "samples": [
            {"table": {"variant": "P3", "m": 8, "item": base, "weight": 1.0}},
            {"shape": {"name": "weights differing by 1e6", "J_P": jp(&shapes()[4].roles)}},
            {"labelling": "role r of labelling t is the identifier base + t*R + r"}
        ],
        "exhaustive": false,
        "exhaustive_scope": "every identifier of the named blocks / every labelling of the partition is enumerated; the 2^64 identifier space is not (finite-population statement, 6 sigma + confirm)",
        "race_tables": tdetails,
        "end_to_end": pdetails,
        "max_abs_z": maxz,
    });
    ctx.finish(
        "exploration",
        coverage,
        vec![
            "by C02 (exact) a signature is the position-wise argmin of per-item race values scaling as 1/w; given that, unbiasedness for arbitrary weights rests on the exponential law checked in (1), whose sampler is decided by C16 and slot permutation by C17".into(),
            "statistical statements hold for the enumerated blocks; shifts below ~3/sqrt(N) are not resolved".into(),
        ],
    )
}

pub fn replay(_ctx: &Ctx, case: &Value) -> Result<(bool, String), String> {
    let parse_v = |s: &str| VARS.iter().cloned().find(|v| format!("{:?}", v) == s);
    match case["kind"].as_str() {
        Some("shape") => {
            let v = parse_v(case["variant"].as_str().ok_or("variant")?).ok_or("variant")?;
            let m = case["m"].as_u64().ok_or("m")? as usize;
            let name = case["shape"].as_str().ok_or("shape")?;
            let sh = shapes().into_iter().chain(scaled_shapes()).chain(zero_shapes()).find(|s| s.name == name).ok_or("shape")?;
            ZERO_MODE.store(zero_shapes().iter().any(|s| s.name == name), std::sync::atomic::Ordering::Relaxed);
            let alt = case["alt_entry"].as_bool().unwrap_or(false);
            SPLIT_MODE.store(case["two_calls"].as_bool().unwrap_or(false), std::sync::atomic::Ordering::Relaxed);
            PLACEHOLDER_ITEM_MODE.store(case["placeholder_item"].as_bool().unwrap_or(false), std::sync::atomic::Ordering::Relaxed);
            let t = case["t"].as_u64().unwrap_or(10_000);
            let base: u64 = case["base"].as_str().unwrap_or("0").parse().unwrap_or(0);
            let p = partition(v, alt, m, &sh, t, base)?;
            let j = jp(&sh.roles);
            let z = (p.mean - j) / p.se.max(1e-12);
            let zm = (p.mse - j * (1. - j) / m as f64) / p.mse_se.max(1e-12);
            Ok((z.abs() > 6. || zm > 6., format!("mean {:.6} J_P {:.6} z {:.2} z_mse {:.2}", p.mean, j, z, zm)))
        }
        Some("tables") => {
            let v = parse_v(case["variant"].as_str().ok_or("variant")?).or(Some(Variant::P3)).unwrap();
            let m = case["m"].as_u64().ok_or("m")? as usize;
            let n = case["n"].as_u64().ok_or("n")?;
            let base: u64 = case["base"].as_str().unwrap_or("0").parse().unwrap_or(0);
            let o = race_tables(v, m, base, n)?;
            Ok((o.worst_ks > 3.4, format!("worst sqrt(N) KS {:.2}", o.worst_ks)))
        }
        _ => Err("kind".into()),
    }
}
