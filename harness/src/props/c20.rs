//! C20 — SetSketch parameters survive dump/reload; a torn file is reported.
//! Engine C: round trip over a parameter alphabet + bit-pattern floats; crash-point enumeration = every byte prefix
//! of the dumped file (plus missing file, directory in place of the file).

use crate::common::{guarded_mut, splitmix64, Ctx};
use probminhash::setsketcher::SetSketchParams;
use serde_json::{json, Value};
use std::path::{Path, PathBuf};

fn scratch_dir(tag: &str) -> PathBuf {
    let base = if Path::new("/dev/shm").is_dir() { PathBuf::from("/dev/shm") } else { std::env::temp_dir() };
    let d = base.join(format!("verif-c20-{}-{}", std::process::id(), tag));
    let _ = std::fs::remove_dir_all(&d);
    std::fs::create_dir_all(&d).expect("scratch dir");
    d
}

/// number of significant decimal digits of the shortest representation that round-trips
fn sig_digits(x: f64) -> usize {
    let s = format!("{:e}", x);
    let mant = s.split('e').next().unwrap_or("");
    let digits: String = mant.chars().filter(|c| c.is_ascii_digit()).collect();
    let t = digits.trim_start_matches('0').trim_end_matches('0');
    t.len().max(1)
}

fn ulp_distance(a: f64, b: f64) -> u64 {
    if a == b {
        return 0;
    }
    if a.is_nan() || b.is_nan() || a.signum() != b.signum() {
        return u64::MAX;
    }
    let (x, y) = (a.to_bits() as i64, b.to_bits() as i64);
    (x - y).unsigned_abs()
}

#[derive(Clone, Copy, Debug)]
struct P {
    b: f64,
    m: u64,
    a: f64,
    q: u64,
}

fn p_json(p: &P) -> Value {
    json!({"b_bits": format!("{:#x}", p.b.to_bits()), "b": p.b, "m": p.m.to_string(), "a_bits": format!("{:#x}", p.a.to_bits()), "a": p.a, "q": p.q.to_string()})
}

fn p_from_json(v: &Value) -> Result<P, String> {
    let hex = |s: &str| u64::from_str_radix(s.trim_start_matches("0x"), 16).map_err(|e| e.to_string());
    Ok(P {
        b: f64::from_bits(hex(v["b_bits"].as_str().ok_or("b_bits")?)?),
        a: f64::from_bits(hex(v["a_bits"].as_str().ok_or("a_bits")?)?),
        m: v["m"].as_str().ok_or("m")?.parse().map_err(|e| format!("{}", e))?,
        q: v["q"].as_str().ok_or("q")?.parse().map_err(|e| format!("{}", e))?,
    })
}

fn float_alphabet() -> Vec<f64> {
    vec![
        1.001,
        1.1,
        2.0,
        1.0 + f64::EPSILON,
        4.0 / 3.0,
        std::f64::consts::PI / 3.0,
        1.0000000000000002,
        123456789.12345678,
        20.0,
        0.1,
        1e-7,
        5e-324,
        1.7976931348623157e308,
        0.30000000000000004,
        2.2250738585072014e-308,
        9007199254740993.0,
        1.2,
        1.0001,
    ]
}

fn int_alphabet() -> Vec<u64> {
    vec![0, 1, 4096, 65534, 1u64 << 53, (1u64 << 53) + 1, u64::MAX, u64::MAX - 1, 1u64 << 63]
}

enum RT {
    Ok { exact: bool },
    Bad(String),
}

fn compare(p: &P, r: &SetSketchParams) -> RT {
    if r.get_m() != p.m || r.get_q() != p.q {
        return RT::Bad(format!("m,q reloaded as ({},{}) instead of ({},{})", r.get_m(), r.get_q(), p.m, p.q));
    }
    let mut exact = true;
    for (name, x, y) in [("a", p.a, r.get_a()), ("b", p.b, r.get_b())] {
        let d = ulp_distance(x, y);
        if d == 0 {
            continue;
        }
        exact = false;
        if sig_digits(x) <= 15 {
            return RT::Bad(format!("{} = {:e} ({} significant digits) reloaded as {:e} ({} ulp away)", name, x, sig_digits(x), y, d));
        }
        if d > 1 {
            return RT::Bad(format!("{} = {:e} reloaded as {:e}, {} ulp away (more than one)", name, x, y, d));
        }
    }
    RT::Ok { exact }
}

fn round_trip(dir: &Path, p: &P) -> RT {
    // every other tuple reaches its m through the public setter instead of the constructor
    let via_setter = (p.m ^ p.q ^ p.a.to_bits()) & 1 == 1;
    let params = if via_setter {
        let mut x = SetSketchParams::new(p.b, p.m.wrapping_add(1), p.a, p.q);
        x.set_m(p.m as usize);
        x
    } else {
        SetSketchParams::new(p.b, p.m, p.a, p.q)
    };
    if params.get_m() != p.m || params.get_q() != p.q || params.get_a().to_bits() != p.a.to_bits() || params.get_b().to_bits() != p.b.to_bits() {
        return RT::Bad(format!("getters before the dump report ({}, {}, {}, {}){}", params.get_b(), params.get_m(), params.get_a(), params.get_q(), if via_setter { " (m set through set_m)" } else { "" }));
    }
    // every round trip starts from an empty directory (dumping over an existing file is its own case)
    let _ = std::fs::remove_file(dir.join("parameters.json"));
    let r = guarded_mut(|| {
        let d = params.dump_json(dir);
        (d, SetSketchParams::reload_json(dir))
    });
    match r {
        Err(pn) => RT::Bad(format!("dump/reload panicked: {}", pn)),
        Ok((Err(e), _)) => RT::Bad(format!("dump failed: {}", e)),
        Ok((Ok(()), Err(e))) => RT::Bad(format!("reload of an intact file failed: {}", e)),
        Ok((Ok(()), Ok(r))) => compare(p, &r),
    }
}

/// outcome classes of a reload on a damaged file
#[derive(Debug, PartialEq, Eq, Clone)]
enum Torn {
    Err,
    Panic(String),
    OkSame,
    OkOther(String),
}

fn reload_outcome(dir: &Path, p: &P) -> Torn {
    match guarded_mut(|| SetSketchParams::reload_json(dir)) {
        Err(pn) => Torn::Panic(pn),
        Ok(Err(_)) => Torn::Err,
        Ok(Ok(r)) => match compare(p, &r) {
            RT::Ok { .. } => Torn::OkSame,
            RT::Bad(w) => Torn::OkOther(w),
        },
    }
}

struct TornStats {
    prefixes: u64,
    err: u64,
    panics: u64,
    ok_same: u64,
    ok_other: u64,
    first_panic: Option<(usize, usize, String)>,
    first_other: Option<(usize, usize, String)>,
    first_oksame: Option<(usize, usize)>,
}

fn crash_points(dump_dir: &Path, torn_dir: &Path, p: &P, st: &mut TornStats) -> Result<usize, String> {
    let params = SetSketchParams::new(p.b, p.m, p.a, p.q);
    params.dump_json(dump_dir)?;
    let bytes = std::fs::read(dump_dir.join("parameters.json")).map_err(|e| e.to_string())?;
    let file = torn_dir.join("parameters.json");
    for len in 0..bytes.len() {
        std::fs::write(&file, &bytes[..len]).map_err(|e| e.to_string())?;
        st.prefixes += 1;
        match reload_outcome(torn_dir, p) {
            Torn::Err => st.err += 1,
            Torn::Panic(m) => {
                st.panics += 1;
                if st.first_panic.is_none() {
                    st.first_panic = Some((len, bytes.len(), m));
                }
            }
            Torn::OkSame => {
                st.ok_same += 1;
                if st.first_oksame.is_none() {
                    st.first_oksame = Some((len, bytes.len()));
                }
            }
            Torn::OkOther(w) => {
                st.ok_other += 1;
                if st.first_other.is_none() {
                    st.first_other = Some((len, bytes.len(), w));
                }
            }
        }
    }
    let _ = std::fs::remove_file(&file);
    Ok(bytes.len())
}

fn gen_tuple(seed: u64, i: u64) -> P {
    let fa = float_alphabet();
    let ia = int_alphabet();
    let h = |k: u64| splitmix64(seed ^ (i.wrapping_mul(4).wrapping_add(k)).wrapping_mul(0x9E3779B97F4A7C15));
    let fl = |k: u64| -> f64 {
        let r = h(k);
        // half of the time from the alphabet, half bit-pattern floats
        if r & 1 == 0 {
            fa[((r >> 8) % fa.len() as u64) as usize]
        } else {
            loop_finite(h(k + 100))
        }
    };
    let it = |k: u64| -> u64 {
        let r = h(k + 50);
        if r & 1 == 0 {
            ia[((r >> 8) % ia.len() as u64) as usize]
        } else {
            h(k + 150) >> ((r >> 8) % 64)
        }
    };
    P { b: fl(0), m: it(1), a: fl(2), q: it(3) }
}

fn loop_finite(mut r: u64) -> f64 {
    loop {
        let x = f64::from_bits(r);
        if x.is_finite() {
            return x;
        }
        r = splitmix64(r);
    }
}

pub fn run(ctx: &Ctx) -> i32 {
    let dump_dir = scratch_dir("dump");
    let torn_dir = scratch_dir("torn");
    let code = run_inner(ctx, &dump_dir, &torn_dir);
    let _ = std::fs::remove_dir_all(&dump_dir);
    let _ = std::fs::remove_dir_all(&torn_dir);
    code
}

fn run_inner(ctx: &Ctx, dump_dir: &Path, torn_dir: &Path) -> i32 {
    let seed = splitmix64(ctx.seed ^ 0xC20);
    // ---- round trips: the full alphabet cross product, then bit-pattern tuples
    let fa = float_alphabet();
    let ia = int_alphabet();
    let mut n_rt = 0u64;
    let mut n_exact = 0u64;
    let mut n_ulp = 0u64;
    let mut distinct: std::collections::HashSet<(u64, u64, u64, u64)> = std::collections::HashSet::new();
    let mut rt_fail = 0u64;
    let do_rt = |p: &P, n_rt: &mut u64, n_exact: &mut u64, n_ulp: &mut u64, rt_fail: &mut u64| {
        *n_rt += 1;
        match round_trip(dump_dir, p) {
            RT::Ok { exact } => {
                if exact {
                    *n_exact += 1
                } else {
                    *n_ulp += 1
                }
            }
            RT::Bad(w) => {
                *rt_fail += 1;
                ctx.violation(
                    &format!("roundtrip:{}", w.split(' ').next().unwrap_or("")),
                    &format!("parameters {:?}: {}", p, w),
                    json!({"kind": "roundtrip", "params": p_json(p)}),
                );
            }
        }
    };
    for &b in &fa {
        for &a in &fa {
            for (k, &m) in ia.iter().enumerate() {
                // q paired cyclically with m to keep the product small, all (m,q) pairs for the first floats
                let qs: Vec<u64> = if b == fa[0] && a == fa[0] { ia.clone() } else { vec![ia[(k + 3) % ia.len()]] };
                for q in qs {
                    let p = P { b, m, a, q };
                    distinct.insert((b.to_bits(), m, a.to_bits(), q));
                    do_rt(&p, &mut n_rt, &mut n_exact, &mut n_ulp, &mut rt_fail);
                }
            }
        }
    }
    // the longest files the dump can produce: 20-digit integers, 17-digit negative floats with 3-digit exponents
    for &b in &[f64::MIN, -2.2250738585072014e-308, -1.2345678901234567e-300, f64::MAX] {
        for &a in &[f64::MIN, -2.2250738585072014e-308, 1.7976931348623157e308] {
            for &(m, q) in &[(u64::MAX, u64::MAX), (u64::MAX - 1, 10_000_000_000_000_000_000u64), (12_345_678_901_234_567_890u64, u64::MAX)] {
                let p = P { b, m, a, q };
                distinct.insert((b.to_bits(), m, a.to_bits(), q));
                do_rt(&p, &mut n_rt, &mut n_exact, &mut n_ulp, &mut rt_fail);
            }
        }
    }
    let n_bits = ctx.pick(20_000u64, 1_000_000);
    for i in 0..n_bits {
        let p = gen_tuple(seed, i);
        distinct.insert((p.b.to_bits(), p.m, p.a.to_bits(), p.q));
        do_rt(&p, &mut n_rt, &mut n_exact, &mut n_ulp, &mut rt_fail);
    }
    // ---- overwrite: a short tuple dumped over a long one must reload as the short one
    let long = P { b: 1.0000000000000002, m: u64::MAX, a: 123456789.12345678, q: u64::MAX };
    let short = P { b: 2.0, m: 1, a: 20.0, q: 0 };
    let mut overwrite_checked = 0u64;
    for (first, second) in [(long, short), (short, long), (long, long)] {
        overwrite_checked += 1;
        let r = guarded_mut(|| {
            SetSketchParams::new(first.b, first.m, first.a, first.q).dump_json(dump_dir)?;
            SetSketchParams::new(second.b, second.m, second.a, second.q).dump_json(dump_dir)?;
            SetSketchParams::reload_json(dump_dir)
        });
        let bad = match r {
            Err(pn) => Some(format!("panic {}", pn)),
            Ok(Err(e)) => Some(format!("error {}", e)),
            Ok(Ok(r)) => match compare(&second, &r) {
                RT::Ok { .. } => None,
                RT::Bad(w) => Some(w),
            },
        };
        if let Some(w) = bad {
            ctx.violation(
                "overwrite",
                &format!("dump of {:?} over an existing dump of {:?}, then reload: {}", second, first, w),
                json!({"kind": "overwrite", "first": p_json(&first), "second": p_json(&second)}),
            );
        }
    }
    // ---- dump histories in one directory: every ordered pair of tuples over a neighbour alphabet (values a few ulp or a
    // tiny absolute amount apart, and values equal in all but one field), and every triple over a smaller one: the reload
    // returns the LAST tuple dumped, whatever the directory held before
    {
        let up = |x: f64| f64::from_bits(x.to_bits() + 1);
        let bs = [1.001, up(1.001), 1.001 * (1.0 + 1e-9), 2.0, 1.0 + f64::EPSILON, 1.0 + 2.0 * f64::EPSILON];
        let az = [0.0, 5e-324, 1e-17, 3e-17, 1e-16, 2.5e-300, 1e-20, 0.3, 0.30000000000000004, 20.0, up(20.0), 20.0 * (1.0 + 1e-12)];
        let ms = [4096u64, 4097];
        let qs = [65534u64, 65535];
        let mut tuples = Vec::new();
        for b in bs {
            for a in az {
                for m in ms {
                    for q in qs {
                        tuples.push(P { b, m, a, q });
                    }
                }
            }
        }
        let hist_check = |hist: &[P]| -> Option<String> {
            let r = guarded_mut(|| {
                for p in hist {
                    SetSketchParams::new(p.b, p.m, p.a, p.q).dump_json(dump_dir)?;
                }
                SetSketchParams::reload_json(dump_dir)
            });
            let last = hist.last().unwrap();
            match r {
                Err(pn) => Some(format!("panic {}", pn)),
                Ok(Err(e)) => Some(format!("error {}", e)),
                Ok(Ok(r)) => match compare(last, &r) {
                    RT::Ok { .. } => None,
                    RT::Bad(w) => Some(w),
                },
            }
        };
        let mut reported = false;
        let stride = ctx.pick(5usize, 1);
        for (i, first) in tuples.iter().enumerate() {
            for (j, second) in tuples.iter().enumerate() {
                // quick: pairs that differ in exactly one field, plus a fifth of all others
                let nd = (first.b != second.b) as u8 + (first.a != second.a) as u8 + (first.m != second.m) as u8 + (first.q != second.q) as u8;
                if nd != 1 && (i + j) % stride != 0 {
                    continue;
                }
                overwrite_checked += 1;
                if let Some(w) = hist_check(&[*first, *second]) {
                    if !reported {
                        reported = true;
                        ctx.violation(
                            "overwrite",
                            &format!("dump of {:?} over an existing dump of {:?}, then reload: {}", second, first, w),
                            json!({"kind": "overwrite", "first": p_json(first), "second": p_json(second)}),
                        );
                    }
                }
            }
        }
        let small: Vec<P> = az.iter().take(8).map(|a| P { b: 1.001, m: 4096, a: *a, q: 65534 }).collect();
        for x in &small {
            for y in &small {
                for z in &small {
                    overwrite_checked += 1;
                    if let Some(w) = hist_check(&[*x, *y, *z]) {
                        if !reported {
                            reported = true;
                            ctx.violation(
                                "overwrite",
                                &format!("dumps of {:?}, {:?}, {:?} into one directory, then reload: {}", x, y, z, w),
                                json!({"kind": "overwrite3", "first": p_json(x), "second": p_json(y), "third": p_json(z)}),
                            );
                        }
                    }
                }
            }
        }
    }
    // ---- crash points: every strict prefix of the dumped file
    let n_cp = ctx.pick(96u64, 2048);
    let mut st = TornStats { prefixes: 0, err: 0, panics: 0, ok_same: 0, ok_other: 0, first_panic: None, first_other: None, first_oksame: None };
    let mut cp_tuples = vec![
        P { b: 1.001, m: 4096, a: 20.0, q: 65534 },
        long,
        short,
        P { b: 4.0 / 3.0, m: 0, a: std::f64::consts::PI / 3.0, q: 1u64 << 53 },
        P { b: f64::MIN, m: u64::MAX, a: f64::MIN, q: u64::MAX },
        P { b: -2.2250738585072014e-308, m: u64::MAX, a: -2.2250738585072014e-308, q: u64::MAX },
    ];
    for i in 0..n_cp {
        cp_tuples.push(gen_tuple(seed ^ 0xABCD, i));
    }
    let mut file_lens = Vec::new();
    let mut sample_file = String::new();
    for (i, p) in cp_tuples.iter().enumerate() {
        let before_p = st.panics;
        let before_o = st.ok_other + st.ok_same;
        match crash_points(dump_dir, torn_dir, p, &mut st) {
            Ok(len) => file_lens.push(len),
            Err(e) => {
                println!("ENGINE-ERROR C20 cannot enumerate crash points: {}", e);
                return 2;
            }
        }
        if i == 0 {
            sample_file = String::from_utf8_lossy(&std::fs::read(dump_dir.join("parameters.json")).unwrap_or_default()).to_string();
        }
        if st.panics > before_p {
            let (len, total, msg) = st.first_panic.clone().unwrap();
            ctx.violation(
                "torn-file-panic",
                &format!("reload_json aborts (panic) on a file cut short: first at prefix length {} of {} bytes for {:?}: {}", len, total, p, msg),
                json!({"kind": "prefix", "params": p_json(p), "prefix_len": len}),
            );
        }
        if st.ok_other + st.ok_same > before_o {
            let (len, w) = match (&st.first_other, &st.first_oksame) {
                (Some((l, _, w)), _) => (*l, w.clone()),
                (None, Some((l, _))) => (*l, "returned Ok with the original parameters from a strict prefix".to_string()),
                _ => (0, String::new()),
            };
            ctx.violation(
                "torn-file-accepted",
                &format!("reload_json returns Ok on a strict prefix (length {}) of the file for {:?}: {}", len, p, w),
                json!({"kind": "prefix", "params": p_json(p), "prefix_len": len}),
            );
        }
    }
    // ---- the same with a trace-level logger installed (log macros evaluate their arguments only then): crash points of the
    // first tuples, a round trip of each
    {
        let mut st2 = TornStats { prefixes: 0, err: 0, panics: 0, ok_same: 0, ok_other: 0, first_panic: None, first_other: None, first_oksame: None };
        for p in cp_tuples.iter().take(6) {
            let r = crate::common::with_trace_logging(|| (crash_points(dump_dir, torn_dir, p, &mut st2), round_trip(dump_dir, p)));
            if let (_, RT::Bad(w)) = &r {
                ctx.violation("round-trip:logging", &format!("with a trace-level logger installed, {:?}: {}", p, w), json!({"kind": "logging", "params": p_json(p)}));
            }
            if st2.panics > 0 || st2.ok_same + st2.ok_other > 0 {
                let what = match (&st2.first_panic, &st2.first_other) {
                    (Some((len, total, msg)), _) => format!("aborts (panic) at prefix length {} of {} bytes: {}", len, total, msg),
                    (None, Some((l, _, w))) => format!("returns Ok at prefix length {}: {}", l, w),
                    _ => "returns Ok on a strict prefix".to_string(),
                };
                ctx.violation("torn-file:logging", &format!("with a trace-level logger installed, reload_json on a file cut short {} ({:?})", what, p), json!({"kind": "logging", "params": p_json(p)}));
                break;
            }
        }
        st.prefixes += st2.prefixes;
        st.err += st2.err;
    }
    ctx.sample(json!({"crash_point_case": {"params": p_json(&cp_tuples[1]), "file_bytes": file_lens.get(1), "every_prefix_length_0_to_len_minus_1_reloaded": true, "outcome_counts": {"err": st.err, "panic": st.panics, "ok": st.ok_same + st.ok_other}}}));
    // ---- missing file / directory in place of the file
    let mut env_cases = 0u64;
    {
        let _ = std::fs::remove_file(torn_dir.join("parameters.json"));
        env_cases += 1;
        match reload_outcome(torn_dir, &short) {
            Torn::Err => {}
            o => ctx.violation("missing-file", &format!("reload_json on a directory without parameters.json: {:?}", o), json!({"kind": "missing"})),
        }
        let nodir = torn_dir.join("does-not-exist");
        env_cases += 1;
        match reload_outcome(&nodir, &short) {
            Torn::Err => {}
            o => ctx.violation("missing-dir", &format!("reload_json on a missing directory: {:?}", o), json!({"kind": "missingdir"})),
        }
        // the same with a valid dump of OTHER parameters sitting in the process's working directory, in the parent of the
        // missing directory and in the filesystem root of the scratch area: a reload must never pick up another file
        {
            let cwd_dir = torn_dir.join("as-cwd");
            let _ = std::fs::create_dir_all(&cwd_dir);
            let other = P { b: 1.5, m: 77, a: 3.25, q: 99 };
            let _ = SetSketchParams::new(other.b, other.m, other.a, other.q).dump_json(&cwd_dir);
            let _ = SetSketchParams::new(other.b, other.m, other.a, other.q).dump_json(torn_dir);
            let old = std::env::current_dir();
            if let (Ok(old), Ok(())) = (old, std::env::set_current_dir(&cwd_dir)) {
                for (label, d) in [("absolute", nodir.clone()), ("relative", std::path::PathBuf::from("does-not-exist")), ("relative to a missing parent", std::path::PathBuf::from("no/such/dir"))] {
                    env_cases += 1;
                    match guarded_mut(|| SetSketchParams::reload_json(&d)) {
                        Ok(Err(_)) => {}
                        o => ctx.violation("missing-dir-other-file", &format!("reload_json on a missing directory ({} path {:?}) while a parameters.json of other parameters lies in the working directory: {:?}", label, d, o.map(|r| r.map(|p| (p.get_b(), p.get_m(), p.get_a(), p.get_q())).map_err(|e| e.to_string()))), json!({"kind": "missingdir-cwd"})),
                    }
                    // a dump into a missing directory must fail, and must not write anywhere else
                    env_cases += 1;
                    let before = std::fs::read(cwd_dir.join("parameters.json")).ok();
                    let r = guarded_mut(|| SetSketchParams::new(short.b, short.m, short.a, short.q).dump_json(&d));
                    let after = std::fs::read(cwd_dir.join("parameters.json")).ok();
                    if before != after {
                        ctx.violation("dump-missing-dir-wrote-elsewhere", &format!("dump_json into a missing directory ({} path {:?}) rewrote the parameters.json of the working directory", label, d), json!({"kind": "missingdir-cwd"}));
                        let _ = SetSketchParams::new(other.b, other.m, other.a, other.q).dump_json(&cwd_dir);
                    } else if let Ok(Ok(())) = r {
                        if !d.join("parameters.json").exists() {
                            ctx.violation("dump-missing-dir-ok", &format!("dump_json into a missing directory ({} path {:?}) returns Ok and no file exists there", label, d), json!({"kind": "missingdir-cwd"}));
                        }
                    }
                }
                let _ = std::env::set_current_dir(old);
            }
            let _ = std::fs::remove_file(torn_dir.join("parameters.json"));
            let _ = std::fs::remove_dir_all(&cwd_dir);
        }
        let asdir = torn_dir.join("parameters.json");
        let _ = std::fs::create_dir_all(&asdir);
        env_cases += 1;
        match reload_outcome(torn_dir, &short) {
            Torn::Err => {}
            Torn::Panic(m) => ctx.violation("directory-as-file-panic", &format!("reload_json aborts when parameters.json is a directory: {}", m), json!({"kind": "dirasfile"})),
            o => ctx.violation("directory-as-file", &format!("reload_json with a directory in place of the file: {:?}", o), json!({"kind": "dirasfile"})),
        }
        let _ = std::fs::remove_dir_all(&asdir);
    }
    println!(
        "C20 round trips={} exact={} within-1-ulp={} failures={} | crash points: tuples={} prefixes={} Err={} panic={} Ok={} | env cases={}",
        n_rt,
        n_exact,
        n_ulp,
        rt_fail,
        cp_tuples.len(),
        st.prefixes,
        st.err,
        st.panics,
        st.ok_same + st.ok_other,
        env_cases
    );
    let coverage = json!({
        "evaluations": n_rt + st.prefixes + env_cases + overwrite_checked,
        "distinct_nontrivial": distinct.len() as u64 + st.prefixes,
        "rule": "round trip: cross product of an 18-float x 9-integer boundary alphabet plus seeded bit-pattern tuples, distinct by (b,m,a,q) bit patterns; crash points: for each of the crash tuples EVERY strict byte prefix (0..len-1) of the real dumped file is written and reloaded, each prefix is a distinct non-trivial case; plus missing file, missing directory, directory in place of the file, dump histories in one directory (long over short and back; all ordered pairs over a 288-tuple neighbour alphabet - fields a few ulp or a tiny absolute amount apart - that differ in one field, a fifth (thorough: all) of the other pairs, all triples over 8 values of a): the reload returns the last tuple dumped; the crash points and a round trip of 6 tuples are repeated with a trace-level logger installed",
        "samples": [
            {"dumped_file": sample_file},
            {"crash_point": {"params": p_json(&cp_tuples[0]), "prefix_len": 17}},
            {"round_trip": p_json(&P { b: 4.0 / 3.0, m: 1u64 << 53, a: 0.30000000000000004, q: u64::MAX })}
        ],
        "exhaustive": true,
        "exhaustive_scope": "all byte prefixes of every dumped file considered; parameter space itself is sampled on an alphabet",
        "round_trips": n_rt,
        "round_trip_exact": n_exact,
        "round_trip_within_one_ulp": n_ulp,
        "crash_tuples": cp_tuples.len(),
        "crash_prefixes": st.prefixes,
        "prefix_outcomes": {"err": st.err, "panic": st.panics, "ok": st.ok_same + st.ok_other},
        "file_length_min_max": [file_lens.iter().min(), file_lens.iter().max()],
        "environment_cases": env_cases,
        "overwrite_cases": overwrite_checked,
    });
    ctx.finish(
        "fault_enumeration",
        coverage,
        vec![
            "a crash during the dump leaves a byte prefix of the file (no reordering inside a single small buffered write)".into(),
            "non-finite a or b are not parameters (serde_json cannot represent them)".into(),
        ],
    )
}

pub fn replay(_ctx: &Ctx, case: &Value) -> Result<(bool, String), String> {
    let dump_dir = scratch_dir("rdump");
    let torn_dir = scratch_dir("rtorn");
    let res = (|| -> Result<(bool, String), String> {
        match case["kind"].as_str() {
            Some("roundtrip") => {
                let p = p_from_json(&case["params"])?;
                Ok(match round_trip(&dump_dir, &p) {
                    RT::Ok { exact } => (false, format!("round trip ok exact={}", exact)),
                    RT::Bad(w) => (true, w),
                })
            }
            Some("prefix") => {
                let p = p_from_json(&case["params"])?;
                let len = case["prefix_len"].as_u64().ok_or("prefix_len")? as usize;
                SetSketchParams::new(p.b, p.m, p.a, p.q).dump_json(&dump_dir)?;
                let bytes = std::fs::read(dump_dir.join("parameters.json")).map_err(|e| e.to_string())?;
                std::fs::write(torn_dir.join("parameters.json"), &bytes[..len.min(bytes.len())]).map_err(|e| e.to_string())?;
                let o = reload_outcome(&torn_dir, &p);
                Ok((o != Torn::Err, format!("prefix {} of {} bytes: {:?}", len, bytes.len(), o)))
            }
            Some("missing") => {
                let o = reload_outcome(&torn_dir, &P { b: 2.0, m: 1, a: 20.0, q: 0 });
                Ok((o != Torn::Err, format!("{:?}", o)))
            }
            Some("missingdir") => {
                let o = reload_outcome(&torn_dir.join("nope"), &P { b: 2.0, m: 1, a: 20.0, q: 0 });
                Ok((o != Torn::Err, format!("{:?}", o)))
            }
            Some("dirasfile") => {
                std::fs::create_dir_all(torn_dir.join("parameters.json")).map_err(|e| e.to_string())?;
                let o = reload_outcome(&torn_dir, &P { b: 2.0, m: 1, a: 20.0, q: 0 });
                Ok((o != Torn::Err, format!("{:?}", o)))
            }
            Some("overwrite") => {
                let first = p_from_json(&case["first"])?;
                let second = p_from_json(&case["second"])?;
                SetSketchParams::new(first.b, first.m, first.a, first.q).dump_json(&dump_dir)?;
                SetSketchParams::new(second.b, second.m, second.a, second.q).dump_json(&dump_dir)?;
                let o = reload_outcome(&dump_dir, &second);
                Ok((o != Torn::OkSame, format!("{:?}", o)))
            }
            Some("overwrite3") => {
                let hist = [p_from_json(&case["first"])?, p_from_json(&case["second"])?, p_from_json(&case["third"])?];
                for p in &hist {
                    SetSketchParams::new(p.b, p.m, p.a, p.q).dump_json(&dump_dir)?;
                }
                let o = reload_outcome(&dump_dir, &hist[2]);
                Ok((o != Torn::OkSame, format!("{:?}", o)))
            }
            Some("logging") => Err("re-derived by running the check itself".into()),
            _ => Err("kind".into()),
        }
    })();
    let _ = std::fs::remove_dir_all(&dump_dir);
    let _ = std::fs::remove_dir_all(&torn_dir);
    res
}
