//! C13 — after reinit/reset a sketcher behaves exactly like a new one.
//! Engine A: all pre-histories up to a depth x all post-inputs up to a depth, on the real sketchers; differential
//! oracle against a freshly constructed instance.

use crate::common::Ctx;
use crate::sketchers::{catalogue, Applied, Kind, Op};
use rayon::prelude::*;
use serde_json::{json, Value};
use std::collections::BTreeMap;

fn pre_alphabet(kind: &Kind) -> Vec<Op> {
    let mut v = vec![Op::Item(1), Op::Item(2), Op::Item(0), Op::Burst(100, 12), Op::Slice(vec![0, 4]), Op::Slice(vec![])];
    if kind.name.contains("NoHash") {
        // pre-hashed data: the boundary hash u64::MAX (the initial content of many registers) in the history
        v.push(Op::Item(u64::MAX));
    }
    if kind.has_end {
        v.push(Op::End);
    }
    if kind.has_merge {
        v.push(Op::MergeFixed);
    }
    if kind.has_reinit {
        v.push(Op::Reinit);
    }
    if kind.min_batch > 1 || !kind.streaming_items {
        // batch-only sketchers: several different batches
        v.push(Op::Slice(vec![3, 3, 1, 2, 2, 7]));
    }
    v
}

fn post_alphabet(kind: &Kind) -> Vec<Op> {
    let mut v = vec![Op::Item(1), Op::Item(0), Op::Item(5), Op::Burst(104, 12), Op::Slice(vec![0, 5, 9])];
    if kind.has_end {
        v.push(Op::End);
    }
    v
}

fn sequences(alpha: &[Op], min_depth: usize, max_depth: usize) -> Vec<Vec<Op>> {
    let mut out: Vec<Vec<Op>> = Vec::new();
    let mut layer: Vec<Vec<Op>> = vec![vec![]];
    if min_depth == 0 {
        out.push(vec![]);
    }
    for d in 1..=max_depth {
        let mut next = Vec::with_capacity(layer.len() * alpha.len());
        for s in &layer {
            for a in alpha {
                let mut t = s.clone();
                t.push(a.clone());
                next.push(t);
            }
        }
        if d >= min_depth {
            out.extend(next.iter().cloned());
        }
        layer = next;
    }
    out
}

type Obs = Result<Vec<u64>, String>;

/// run pre; (reset); post on one instance.  For ProbOrdMinHash2 (no reinit) the "reset" is implicit in hash_set.
fn run_case(kind: &Kind, pre: &[Op], post: &[Op], flags_out: Option<&mut Vec<(&'static str, bool)>>) -> Obs {
    run_case_opt(kind, pre, post, flags_out, true)
}

/// the reference: a NEW instance fed the post-input directly - no reset at all (a reset that damages even a new instance
/// would otherwise damage the reference in the same way)
fn run_new(kind: &Kind, post: &[Op]) -> Obs {
    run_case_opt(kind, &[], post, None, false)
}

fn run_case_opt(kind: &Kind, pre: &[Op], post: &[Op], flags_out: Option<&mut Vec<(&'static str, bool)>>, do_reset: bool) -> Obs {
    let mut inst = (kind.build)();
    for op in pre {
        // errors of the pre-history are part of the history (e.g. empty slice): ignored
        let _ = inst.apply(op);
    }
    if let Some(f) = flags_out {
        *f = inst.flags();
    }
    if kind.has_reinit && do_reset {
        if let Applied::Failed(e) = inst.apply(&Op::Reinit) {
            return Err(format!("reinit failed: {}", e));
        }
    }
    for op in post {
        if let Applied::Failed(e) = inst.apply(op) {
            return Err(format!("post op {:?} failed: {}", op, e));
        }
    }
    inst.observe()
}

fn base_name(kind: &Kind) -> String {
    kind.name.split(" m=").next().unwrap_or(&kind.name).to_string()
}

struct KindOut {
    execs: u64,
    pre_histories: u64,
    post_inputs: u64,
    flags: BTreeMap<&'static str, u64>,
    distinct_fresh: u64,
    bad: Option<(Vec<Op>, Vec<Op>, String)>,
}

fn check_kind(kind: &Kind, pre_depth: usize, post_depth: usize) -> KindOut {
    let pres = sequences(&pre_alphabet(kind), 0, pre_depth);
    // ProbOrdMinHash2: the last post op is the hash_set call whose signature is observed
    let posts = sequences(&post_alphabet(kind), 1, post_depth);
    let fresh: Vec<Obs> = posts.iter().map(|p| run_new(kind, p)).collect();
    let distinct_fresh = fresh.iter().flatten().collect::<std::collections::BTreeSet<_>>().len() as u64;
    let res: Vec<(u64, Vec<(&'static str, bool)>, Option<(Vec<Op>, Vec<Op>, String)>)> = pres
        .par_iter()
        .map(|pre| {
            let mut flags = Vec::new();
            let mut bad = None;
            let mut n = 0;
            for (pi, post) in posts.iter().enumerate() {
                let obs = if pi == 0 { run_case(kind, pre, post, Some(&mut flags)) } else { run_case(kind, pre, post, None) };
                n += 1;
                if obs != fresh[pi] && bad.is_none() {
                    let show = |o: &Obs| match o {
                        Ok(v) => format!("{:x?}", &v[..v.len().min(6)]),
                        Err(e) => format!("Err({})", e),
                    };
                    bad = Some((pre.clone(), post.clone(), format!("after reset: {} ; fresh instance: {}", show(&obs), show(&fresh[pi]))));
                }
            }
            (n, flags, bad)
        })
        .collect();
    let mut out = KindOut { execs: 0, pre_histories: pres.len() as u64, post_inputs: posts.len() as u64, flags: BTreeMap::new(), distinct_fresh, bad: None };
    for (n, flags, bad) in res {
        out.execs += n;
        for (k, v) in flags {
            if v {
                *out.flags.entry(k).or_insert(0) += 1;
            }
        }
        if out.bad.is_none() {
            out.bad = bad;
        }
    }
    out
}

/// Long histories: counters, generation stamps or caches narrower than usize only show after 2^8 or 2^16 resets.  One
/// instance per sketcher kind (largest size of the tier) lives through c reset cycles for every c around 2^8 and 2^16, the first
/// cycle streams the items the post-input will stream again, the others stream other items; then the usual comparison
/// with a fresh instance.
fn long_histories(kinds: &[Kind]) -> (u64, u64, Option<(String, usize, String)>) {
    // the largest size of each sketcher type (more positions: a wrong occurrence count or stale register is visible)
    let mut last: BTreeMap<String, &Kind> = BTreeMap::new();
    for k in kinds {
        last.insert(base_name(k), k);
    }
    let firsts: Vec<&Kind> = last.into_values().collect();
    let counts: Vec<usize> = [1usize << 8, 1 << 16].iter().flat_map(|c| (c - 2)..=(c + 2)).collect();
    let res: Vec<(u64, u64, Option<(String, usize, String)>)> = firsts
        .par_iter()
        .map(|kind| {
            let batch = kind.min_batch > 1 || !kind.streaming_items;
            let first: Vec<Op> = if batch { vec![Op::Slice(vec![1, 2, 1, 2])] } else { vec![Op::Item(1), Op::Item(2)] };
            let filler: Op = if batch { Op::Slice(vec![7, 8, 9]) } else { Op::Item(7) };
            let post: Vec<Op> = if batch {
                vec![Op::Slice(vec![1, 2, 1])]
            } else if kind.has_end {
                vec![Op::Item(1), Op::Item(2), Op::End]
            } else {
                vec![Op::Item(1), Op::Item(2)]
            };
            let fresh = run_new(kind, &post);
            let mut ops = 0u64;
            let mut bad = None;
            for &c in &counts {
                // c cycles in all: the first one, c-1 fillers; run_case adds the final reset
                let mut pre: Vec<Op> = first.clone();
                for _ in 1..c {
                    if kind.has_reinit {
                        pre.push(Op::Reinit);
                    }
                    pre.push(filler.clone());
                }
                ops += pre.len() as u64;
                let obs = run_case(kind, &pre, &post, None);
                if obs != fresh && bad.is_none() {
                    bad = Some((kind.name.clone(), c, format!("after {} reset cycles: {:x?} ; fresh instance: {:x?}", c, obs.as_ref().map(|v| &v[..v.len().min(6)]), fresh.as_ref().map(|v| &v[..v.len().min(6)]))));
                }
            }
            (counts.len() as u64, ops, bad)
        })
        .collect();
    let mut n = 0;
    let mut ops = 0;
    let mut bad = None;
    for (a, b, c) in res {
        n += a;
        ops += b;
        if bad.is_none() {
            bad = c;
        }
    }
    (n, ops, bad)
}

// ------------------------------------------------------------------------------------------------ interrupted calls

const POISON: u64 = 0xDEAD_0000_BEEF;

/// Fnv, except that hashing the item POISON panics: the only way for a caller to interrupt a sketching call in the middle
/// of its stream (a panicking Hash implementation of the item type)
#[derive(Default)]
pub struct PoisonHasher(fnv::FnvHasher);
impl std::hash::Hasher for PoisonHasher {
    fn write(&mut self, bytes: &[u8]) {
        if bytes.len() == 8 && u64::from_ne_bytes(bytes.try_into().unwrap()) == POISON {
            panic!("poisoned item");
        }
        self.0.write(bytes)
    }
    fn finish(&self) -> u64 {
        self.0.finish()
    }
}

/// A call interrupted by a panic of the item's Hash implementation (caught by the caller) is one more kind of history: after
/// reinit / reset - or by itself for ProbOrdMinHash2, which clears at the start of every call - the sketcher behaves like a
/// new one.  Every position of the poisoned item in a 4-item slice, for every sketcher type.
fn interrupted_calls() -> (u64, Option<(String, String)>) {
    use probminhash::densminhash::{OptDensMinHash, RevOptDensMinHash};
    use probminhash::probminhasher::probminhash2::ProbMinHash2;
    use probminhash::probminhasher::probordminhash2::ProbOrdMinHash2;
    use probminhash::setsketcher::{SetSketchParams, SetSketcher};
    use probminhash::superminhasher::SuperMinHash;
    use probminhash::superminhasher2::SuperMinHash2;
    use std::hash::BuildHasherDefault;
    use std::panic::{catch_unwind, AssertUnwindSafe};
    type P = PoisonHasher;
    let bh = BuildHasherDefault::<P>::default;
    let mut n = 0u64;
    let post: Vec<u64> = vec![1, 2, 1, 9];
    for pos in 0..4usize {
        let mut pre: Vec<u64> = vec![1, 2, 3];
        pre.insert(pos, POISON);
        let quiet = |f: &mut dyn FnMut()| {
            let _ = crate::common::guarded_mut(|| f());
        };
        macro_rules! case {
            ($name:expr, $new:expr, $interrupted:expr, $reset:expr, $post:expr, $obs:expr) => {{
                n += 1;
                let r = catch_unwind(AssertUnwindSafe(|| {
                    let mut used = $new;
                    quiet(&mut || {
                        let _ = $interrupted(&mut used, &pre);
                    });
                    $reset(&mut used);
                    $post(&mut used, &post);
                    let mut fresh = $new;
                    $post(&mut fresh, &post);
                    ($obs(&used), $obs(&fresh))
                }));
                match r {
                    Ok((a, b)) if a == b => {}
                    Ok((a, b)) => return (n, Some(($name.to_string(), format!("a call on {:?} interrupted at the poisoned item (panic caught), then reset, then {:?}: {:x?} ; fresh instance: {:x?}", pre, post, &a[..a.len().min(4)], &b[..b.len().min(4)])))),
                    Err(_) => return (n, Some(($name.to_string(), format!("after a call on {:?} interrupted at the poisoned item, reset + {:?} panics", pre, post)))),
                }
            }};
        }
        case!(
            "ProbOrdMinHash2",
            ProbOrdMinHash2::<P>::new(16, 2),
            |h: &mut ProbOrdMinHash2<P>, s: &Vec<u64>| h.hash_set(s),
            |_h: &mut ProbOrdMinHash2<P>| {},
            |h: &mut ProbOrdMinHash2<P>, s: &Vec<u64>| {
                let _ = h.hash_set(s);
            },
            |h: &ProbOrdMinHash2<P>| {
                // the signature of the last call is recomputed: hash_set is the observation
                let mut c = ProbOrdMinHash2::<P>::new(16, 2);
                let _ = &mut c;
                h.verif_selected().1.iter().map(|v| v.to_bits()).collect::<Vec<u64>>()
            }
        );
        case!(
            "SuperMinHash",
            SuperMinHash::<f64, u64, P>::new(16, bh()),
            |h: &mut SuperMinHash<f64, u64, P>, s: &Vec<u64>| h.sketch_slice(s),
            |h: &mut SuperMinHash<f64, u64, P>| h.reinit(),
            |h: &mut SuperMinHash<f64, u64, P>, s: &Vec<u64>| {
                let _ = h.sketch_slice(s);
            },
            |h: &SuperMinHash<f64, u64, P>| h.get_hsketch().iter().map(|v| v.to_bits()).collect::<Vec<u64>>()
        );
        case!(
            "SuperMinHash2",
            SuperMinHash2::<u64, u64, P>::new(16, bh()),
            |h: &mut SuperMinHash2<u64, u64, P>, s: &Vec<u64>| h.sketch_slice(s),
            |h: &mut SuperMinHash2<u64, u64, P>| h.reinit(),
            |h: &mut SuperMinHash2<u64, u64, P>, s: &Vec<u64>| {
                let _ = h.sketch_slice(s);
            },
            |h: &SuperMinHash2<u64, u64, P>| h.get_hsketch().clone()
        );
        case!(
            "SetSketcher",
            SetSketcher::<u16, u64, P>::new(SetSketchParams::new(1.001, 16, 20., 65534), bh()),
            |h: &mut SetSketcher<u16, u64, P>, s: &Vec<u64>| h.sketch_slice(s),
            |h: &mut SetSketcher<u16, u64, P>| h.reinit(),
            |h: &mut SetSketcher<u16, u64, P>, s: &Vec<u64>| {
                let _ = h.sketch_slice(s);
            },
            |h: &SetSketcher<u16, u64, P>| {
                let mut v: Vec<u64> = h.get_signature().iter().map(|x| *x as u64).collect();
                v.push(h.get_nb_overflow() as u64);
                v.push(h.get_low_sketch() as u64);
                v
            }
        );
        case!(
            "OptDensMinHash",
            OptDensMinHash::<f64, u64, P>::new(16, bh()),
            |h: &mut OptDensMinHash<f64, u64, P>, s: &Vec<u64>| h.sketch_slice(s),
            |h: &mut OptDensMinHash<f64, u64, P>| h.reinit(),
            |h: &mut OptDensMinHash<f64, u64, P>, s: &Vec<u64>| {
                let _ = h.sketch_slice(s);
            },
            |h: &OptDensMinHash<f64, u64, P>| h.get_hsketch_u64()
        );
        case!(
            "RevOptDensMinHash",
            RevOptDensMinHash::<f64, u64, P>::new(16, bh()),
            |h: &mut RevOptDensMinHash<f64, u64, P>, s: &Vec<u64>| h.sketch_slice(s),
            |h: &mut RevOptDensMinHash<f64, u64, P>| h.reinit(),
            |h: &mut RevOptDensMinHash<f64, u64, P>, s: &Vec<u64>| {
                let _ = h.sketch_slice(s);
            },
            |h: &RevOptDensMinHash<f64, u64, P>| h.get_hsketch_u64()
        );
        case!(
            "ProbMinHash2",
            ProbMinHash2::<u64, P>::new(16, u64::MAX),
            |h: &mut ProbMinHash2<u64, P>, s: &Vec<u64>| {
                for x in s {
                    h.hash_item(*x, 1.5);
                }
            },
            |h: &mut ProbMinHash2<u64, P>| h.reset(),
            |h: &mut ProbMinHash2<u64, P>, s: &Vec<u64>| {
                for x in s.iter().take(2) {
                    h.hash_item(*x, 2.0);
                }
            },
            |h: &ProbMinHash2<u64, P>| h.get_signature().clone()
        );
    }
    (n, None)
}

fn ops_json(ops: &[Op]) -> Value {
    json!(ops
        .iter()
        .map(|o| match o {
            Op::Item(x) => json!({"item": x}),
            Op::Burst(s, n) => json!({"burst": [s, n]}),
            Op::Slice(v) => json!({"slice": v}),
            Op::End => json!("end"),
            Op::MergeFixed => json!("merge"),
            Op::Reinit => json!("reinit"),
        })
        .collect::<Vec<_>>())
}

fn ops_from_json(v: &Value) -> Result<Vec<Op>, String> {
    let mut out = Vec::new();
    for o in v.as_array().ok_or("ops")? {
        out.push(match o.as_str() {
            Some("end") => Op::End,
            Some("merge") => Op::MergeFixed,
            Some("reinit") => Op::Reinit,
            _ => {
                if let Some(x) = o["item"].as_u64() {
                    Op::Item(x)
                } else if let Some(a) = o["burst"].as_array() {
                    Op::Burst(a[0].as_u64().unwrap_or(0), a[1].as_u64().unwrap_or(0) as usize)
                } else if let Some(a) = o["slice"].as_array() {
                    Op::Slice(a.iter().map(|x| x.as_u64().unwrap_or(0)).collect())
                } else {
                    return Err("bad op".into());
                }
            }
        });
    }
    Ok(out)
}

fn sizes(quick: bool) -> Vec<usize> {
    if quick {
        vec![1, 3, 16]
    } else {
        vec![1, 2, 3, 7, 16, 64]
    }
}

pub fn run(ctx: &Ctx) -> i32 {
    crate::common::install_hang_watchdog(ctx, "model_checking", 20);
    let kinds: Vec<Kind> = catalogue(&sizes(ctx.quick()), true).into_iter().filter(|k| k.has_reinit || k.name.starts_with("ProbOrdMinHash2")).collect();
    let pre_depth = ctx.pick(3usize, 4);
    let post_depth = 2usize; // depth 3 post-inputs multiply the cost by 6 without reaching new reset code
    let mut tot_execs = 0u64;
    let mut tot_distinct = 0u64;
    let mut per_kind = Vec::new();
    let mut flags_total: BTreeMap<&'static str, u64> = BTreeMap::new();
    for kind in &kinds {
        if per_kind.len() % 11 == 3 {
            let pre = vec![Op::Burst(100, 12), Op::Item(2)];
            let post = vec![Op::Item(5)];
            let a = run_case(kind, &pre, &post, None);
            let f = run_new(kind, &post);
            ctx.sample(json!({"sketcher": kind.name, "pre": ops_json(&pre), "then": "reset", "post": ops_json(&post), "equal_to_fresh": a == f,
                "observation_head": a.as_ref().ok().map(|v| v.iter().take(4).map(|w| format!("{:#x}", w)).collect::<Vec<_>>())}));
        }
        let o = check_kind(kind, pre_depth, post_depth);
        tot_execs += o.execs;
        tot_distinct += o.distinct_fresh;
        for (k, v) in &o.flags {
            *flags_total.entry(k).or_insert(0) += v;
        }
        if let Some((pre, post, what)) = &o.bad {
            ctx.violation(
                &format!("reset:{}", base_name(kind)),
                &format!("{}: history {:?}, then reset, then {:?}: {}", kind.name, pre, post, what),
                json!({"kind": "reset", "sketcher": kind.name, "pre": ops_json(pre), "post": ops_json(post)}),
            );
        }
        per_kind.push(json!({"sketcher": kind.name, "pre_histories": o.pre_histories, "post_inputs": o.post_inputs, "executions": o.execs,
            "distinct_fresh_results": o.distinct_fresh, "pre_histories_with_flag": o.flags}));
    }
    // sketch sizes around 2^16: a few histories per sketcher type
    {
        let big: Vec<Kind> = catalogue(&ctx.pick(vec![65_537usize], vec![65_535, 65_536, 65_537]), true)
            .into_iter()
            .filter(|k| k.has_reinit || k.name.starts_with("ProbOrdMinHash2"))
            .filter(|k| ctx.pick(!k.name.starts_with("RevOptDens"), true))
            .collect();
        let res: Vec<(u64, Option<(String, Vec<Op>, Vec<Op>, String)>)> = big
            .par_iter()
            .map(|kind| {
                let batch = kind.min_batch > 1 || !kind.streaming_items;
                let pres: Vec<Vec<Op>> = if batch {
                    vec![vec![Op::Slice(vec![3, 3, 1, 2, 2, 7])], vec![Op::Slice(vec![1, 2, 3]), Op::Slice(vec![9, 8, 7, 9])]]
                } else {
                    let mut v = vec![vec![Op::Burst(100, 12), Op::Item(1)], vec![Op::Item(2), Op::Slice(vec![0, 4])]];
                    if kind.has_end {
                        v.push(vec![Op::Item(1), Op::End, Op::Item(2)]);
                    }
                    if kind.has_merge {
                        v.push(vec![Op::Item(1), Op::MergeFixed]);
                    }
                    v
                };
                let post: Vec<Op> = if batch {
                    vec![Op::Slice(vec![0, 5, 9, 5])]
                } else if kind.has_end {
                    vec![Op::Item(5), Op::Slice(vec![0, 5, 9])]
                } else {
                    vec![Op::Item(5), Op::Item(0), Op::Item(9)]
                };
                let fresh = run_new(kind, &post);
                let mut n = 0;
                for pre in pres {
                    n += 1;
                    let obs = run_case(kind, &pre, &post, None);
                    if obs != fresh {
                        return (n, Some((kind.name.clone(), pre, post.clone(), "differs from a fresh instance".to_string())));
                    }
                }
                (n, None)
            })
            .collect();
        for (n, bad) in res {
            tot_execs += n;
            if let Some((name, pre, post, what)) = bad {
                ctx.violation(
                    &format!("reset:{}", name.split(" m=").next().unwrap_or(&name)),
                    &format!("{}: history {:?}, then reset, then {:?}: {}", name, pre, post, what),
                    json!({"kind": "reset", "sketcher": name, "pre": ops_json(&pre), "post": ops_json(&post)}),
                );
            }
        }
    }
    let (int_n, int_bad) = interrupted_calls();
    tot_execs += int_n;
    if let Some((name, what)) = int_bad {
        ctx.violation(&format!("reset-after-interrupted-call:{}", name), &format!("{}: {}", name, what), json!({"kind": "interrupted", "sketcher": name}));
    }
    let (long_n, long_ops, long_bad) = long_histories(&kinds);
    tot_execs += long_n;
    if let Some((name, c, what)) = long_bad {
        ctx.violation(&format!("reset-long-history:{}", name.split(" m=").next().unwrap_or(&name)), &format!("{}: {}", name, what), json!({"kind": "long", "sketcher": name, "cycles": c}));
    }
    println!("C13 long histories: {} (sketcher, cycle count) cases, {} operations", long_n, long_ops);
    println!("C13 kinds={} executions={} distinct fresh results={} non-vacuity={:?}", kinds.len(), tot_execs, tot_distinct, flags_total);
    let coverage = json!({
        "states": tot_distinct,
        "transitions": tot_execs,
        "traces_validated_against_impl": tot_execs,
        "samples": [
            {"sketcher": "SetSketcher<u8> params#0 m=3 (overflowing registers)", "pre": ["burst(100,12)", "merge", "item(1)"], "then": "reinit", "post": ["item(5)", "slice[2,5,9]"]},
            {"sketcher": "RevOptDensMinHash<f64> m=16", "pre": ["item(1)", "end", "item(2)"], "then": "reinit", "post": ["burst(104,12)", "end"]},
            {"sketcher": "ProbOrdMinHash2 m=3 l=2", "pre": ["slice[3,3,1,2,2,7]", "slice[2,4]"], "then": "(hash_set clears itself)", "post": ["slice[2,5,9]"]}
        ],
        "exhaustive": true,
        "evaluations": tot_execs,
        "distinct_nontrivial": tot_distinct,
        "rule": "for every sketcher with reinit/reset (SuperMinHash f32/f64, SuperMinHash2 u32/u64, SetSketcher u8/u16/u32 incl. overflowing and clipping parameter sets, both densified sketchers f32/f64, ProbMinHash2) and ProbOrdMinHash2's self-clearing hash_set, sizes {1,3,16} (+2,7,64) (and 2-4 fixed histories per sketcher type at size 65537 (65535, 65536)): ALL pre-histories up to depth 3 (4) over {3 items, burst of 12, slice, empty slice (error path), end_sketch, merge, reinit} x ALL post-inputs of depth 1..2 (3): observation (all views, cardinal stats, overflow count, registers) after the reset must be bit-identical to a fresh instance fed the post-input; distinct = distinct fresh results",
        "sketcher_kinds": kinds.len(),
        "long_histories": {"cases": long_n, "operations": long_ops, "what": "per sketcher kind (largest size of the tier): c reset cycles for every c in 254..=258 and 65534..=65538 (first cycle streams items 1,2; the others stream other items), then reset and the post-input {1,2}: equal to a fresh instance"},
        "interrupted_calls": {"cases": int_n, "what": "for each of 7 sketcher types (item hasher = Fnv that panics on one poisoned item): a call on a 4-item stream with the poisoned item at each of the 4 positions is interrupted by the panic (caught), then reinit / reset (nothing for ProbOrdMinHash2, which clears itself), then a post-input: equal to a fresh instance"},
        "pre_depth": pre_depth,
        "post_depth": post_depth,
        "non_vacuity_pre_histories_with_state": flags_total,
        "per_kind": per_kind,
    });
    ctx.finish(
        "model_checking",
        coverage,
        vec![
            "the observation covers every public view plus the ProbMinHash registers (hook H2); hidden state that never influences a later view is not observed".into(),
            "histories deeper than the bound behave like those explored (bursts of 12 items drive the counters into their interesting regions inside the bound); beyond it only the one-shape long histories of 2^8 and 2^16 reset cycles are run".into(),
        ],
    )
}

pub fn replay(_ctx: &Ctx, case: &Value) -> Result<(bool, String), String> {
    let name = case["sketcher"].as_str().ok_or("sketcher")?;
    let mut kinds = catalogue(&sizes(false), true);
    kinds.extend(catalogue(&[65_535, 65_536, 65_537], true));
    let kind = kinds.iter().find(|k| k.name == name).ok_or("unknown sketcher kind")?;
    if case["kind"].as_str() == Some("interrupted") {
        let (_, bad) = interrupted_calls();
        return Ok((bad.is_some(), format!("{:?}", bad)));
    }
    if case["kind"].as_str() == Some("long") {
        let (_, _, bad) = long_histories(std::slice::from_ref(kind));
        return Ok((bad.is_some(), format!("{:?}", bad)));
    }
    let pre = ops_from_json(&case["pre"])?;
    let post = ops_from_json(&case["post"])?;
    let a = run_case(kind, &pre, &post, None);
    let f = run_new(kind, &post);
    Ok((a != f, format!("after reset == fresh: {}", a == f)))
}
