//! C03 — SuperMinHash and SuperMinHash2 estimate the Jaccard index without bias.
//! (1) Lemma 1 identity on all labellings of a block (exact integers); (2) partition estimates for large / lopsided
//! shapes incl. the MSE bound; (3) single-item law of SuperMinHash (permutation of integer parts, uniform fractions).

use crate::common::{guarded_mut, ks_distance, splitmix64, Ctx};
use crate::lemma1::{check_identity, partition, ViewsFn};
use fnv::FnvHasher;
use probminhash::nohasher::NoHashHasher;
use probminhash::superminhasher::SuperMinHash;
use probminhash::superminhasher2::SuperMinHash2;
use rayon::prelude::*;
use serde_json::{json, Value};
use std::hash::{BuildHasherDefault, Hasher};
use twox_hash::XxHash32;

fn smh_f<F: num::Float + rand_distr::uniform::SampleUniform + std::fmt::Debug, H: Hasher + Default>(m: usize, items: &[u64]) -> Result<Vec<Vec<u64>>, String>
where
    rand::distr::StandardUniform: rand::distr::Distribution<F>,
{
    let items = items.to_vec();
    guarded_mut(move || {
        let mut s = SuperMinHash::<F, u64, H>::new(m, BuildHasherDefault::<H>::default());
        for x in &items {
            s.sketch(x).unwrap();
        }
        vec![s.get_hsketch().iter().map(|f| f.to_f64().unwrap().to_bits()).collect()]
    })
}

fn smh2_u64<H: Hasher + Default>(m: usize, items: &[u64]) -> Result<Vec<Vec<u64>>, String> {
    let items = items.to_vec();
    guarded_mut(move || {
        let mut s = SuperMinHash2::<u64, u64, H>::new(m, BuildHasherDefault::<H>::default());
        for x in &items {
            s.sketch(x).unwrap();
        }
        vec![s.get_hsketch().clone()]
    })
}

fn smh2_u32_xx(m: usize, items: &[u64]) -> Result<Vec<Vec<u64>>, String> {
    let items = items.to_vec();
    guarded_mut(move || {
        let mut s = SuperMinHash2::<u32, u64, XxHash32>::new(m, BuildHasherDefault::<XxHash32>::default());
        for x in &items {
            s.sketch(x).unwrap();
        }
        vec![s.get_hsketch().iter().map(|x| *x as u64).collect()]
    })
}

fn smh2_u32_nohash(m: usize, items: &[u64]) -> Result<Vec<Vec<u64>>, String> {
    let items: Vec<u32> = items.iter().map(|x| *x as u32).collect();
    guarded_mut(move || {
        let mut s = SuperMinHash2::<u32, u32, NoHashHasher>::new(m, BuildHasherDefault::<NoHashHasher>::default());
        for x in &items {
            s.sketch(x).unwrap();
        }
        vec![s.get_hsketch().iter().map(|x| *x as u64).collect()]
    })
}

/// the same sketchers, but the instance is first used for another item and reinitialised (sketchers are meant to be reused)
fn smh_f_reused<F: num::Float + rand_distr::uniform::SampleUniform + std::fmt::Debug, H: Hasher + Default>(m: usize, items: &[u64]) -> Result<Vec<Vec<u64>>, String>
where
    rand::distr::StandardUniform: rand::distr::Distribution<F>,
{
    let items = items.to_vec();
    guarded_mut(move || {
        let mut s = SuperMinHash::<F, u64, H>::new(m, BuildHasherDefault::<H>::default());
        s.sketch(&0xDEAD_BEEF_u64).unwrap();
        s.reinit();
        for x in &items {
            s.sketch(x).unwrap();
        }
        vec![s.get_hsketch().iter().map(|f| f.to_f64().unwrap().to_bits()).collect()]
    })
}

fn smh2_u64_reused<H: Hasher + Default>(m: usize, items: &[u64]) -> Result<Vec<Vec<u64>>, String> {
    let items = items.to_vec();
    guarded_mut(move || {
        let mut s = SuperMinHash2::<u64, u64, H>::new(m, BuildHasherDefault::<H>::default());
        s.sketch_slice(&[0xDEAD_BEEF_u64, 77, 78]).unwrap();
        s.reinit();
        for x in &items {
            s.sketch(x).unwrap();
        }
        vec![s.get_hsketch().clone()]
    })
}

pub struct Variant {
    pub name: &'static str,
    pub f: fn(usize, &[u64]) -> Result<Vec<Vec<u64>>, String>,
}

pub fn variants() -> Vec<Variant> {
    vec![
        Variant { name: "SuperMinHash<f64,Fnv>", f: smh_f::<f64, FnvHasher> },
        Variant { name: "SuperMinHash<f32,Fnv>", f: smh_f::<f32, FnvHasher> },
        Variant { name: "SuperMinHash<f64,NoHash>", f: smh_f::<f64, NoHashHasher> },
        Variant { name: "SuperMinHash2<u64,Fnv>", f: smh2_u64::<FnvHasher> },
        Variant { name: "SuperMinHash2<u64,NoHash>", f: smh2_u64::<NoHashHasher> },
        Variant { name: "SuperMinHash2<u32,XxHash32>", f: smh2_u32_xx },
        Variant { name: "SuperMinHash2<u32,NoHash>", f: smh2_u32_nohash },
        Variant { name: "SuperMinHash<f64,Fnv> reused after reinit", f: smh_f_reused::<f64, FnvHasher> },
        Variant { name: "SuperMinHash2<u64,Fnv> reused after reinit", f: smh2_u64_reused::<FnvHasher> },
    ]
}

/// all shapes (|A\B|,|B\A|,|A∩B|) with both sets non-empty and union size <= umax
pub fn shapes(umax: usize) -> Vec<(usize, usize, usize)> {
    let mut v = Vec::new();
    for u in 1..=umax {
        for cab in 0..=u {
            for ca in 0..=(u - cab) {
                let cb = u - cab - ca;
                if ca + cab >= 1 && cb + cab >= 1 && ca <= cb {
                    v.push((ca, cb, cab));
                }
            }
        }
    }
    v
}

/// generic driver of the exact identity over variants x sizes x shapes, with arbitration of a broken identity
#[allow(clippy::too_many_arguments)]
pub fn identity_sweep(
    ctx: &Ctx,
    prop_tag: &str,
    vars: &[Variant],
    ms: &[usize],
    block: &[u64],
    umax: usize,
    details: &mut Vec<Value>,
    totals: &mut (u64, u64, u64),
) {
    for var in vars {
        let mut variant_reported = false;
        for &m in ms {
            if variant_reported {
                break; // one replayable counterexample per variant is enough; arbitration runs are expensive
            }
            let f = var.f;
            let sk = move |items: &[u64]| f(m, items);
            let skr: &ViewsFn = &sk;
            let mut cfg_triples = 0u64;
            let mut cfg_ok = true;
            for (ca, cb, cab) in shapes(umax) {
                if ca + cb + cab > block.len() || variant_reported {
                    continue;
                }
                let o = check_identity(skr, block, ca, cb, cab);
                totals.0 += o.triples;
                totals.1 += o.sketches_computed;
                totals.2 += o.triples * (o.positions * o.views) as u64;
                cfg_triples += o.triples;
                let case = json!({"kind": "identity", "variant": var.name, "m": m, "shape": [ca, cb, cab], "block": block});
                if let Some(e) = o.error {
                    cfg_ok = false;
                    ctx.violation(&format!("{}-sketch-failure:{}", prop_tag, var.name), &format!("{} m={} shape {:?}: {}", var.name, m, (ca, cb, cab), e), case);
                    continue;
                }
                if let Some((view, pos, coll, eq)) = o.broken {
                    cfg_ok = false;
                    // arbitration: the property speaks of the expectation; re-run in tolerance form on a large partition
                    let t = 200_000u64;
                    let base = splitmix64(ctx.seed ^ 0xA5B1 ^ (m as u64) << 20) >> 16;
                    match partition(skr, base, ca as u64, cb as u64, cab as u64, t, view) {
                        Ok(p) => {
                            let se = p.se.max(1e-9);
                            let z = (p.mean - p.j) / se;
                            if z.abs() > 6. || (p.j == 0. || p.j == 1.) && (p.mean - p.j).abs() > 1e-12 {
                                variant_reported = true;
                                ctx.violation(
                                    &format!("{}-biased:{}", prop_tag, var.name),
                                    &format!(
                                        "{} m={} shape (|A\\B|,|B\\A|,|A∩B|)={:?}: over all {} labellings of the block, view {} position {} collides {} times (identity {}); on {} fresh labellings the mean fraction of equal positions is {:.5} vs J={:.5} (z={:.1})",
                                        var.name, m, (ca, cb, cab), o.triples, view, pos, coll, eq, t, p.mean, p.j, z
                                    ),
                                    case,
                                );
                            } else {
                                ctx.note(format!(
                                    "identity-broken expectation-holds: {} m={} shape {:?} view {} position {} ({}); partition mean {:.5} vs J {:.5}",
                                    var.name, m, (ca, cb, cab), view, pos, eq, p.mean, p.j
                                ));
                            }
                        }
                        Err(e) => ctx.violation(&format!("{}-sketch-failure:{}", prop_tag, var.name), &e, case),
                    }
                }
            }
            if m == 5 || m == 33 {
                ctx.sample(json!({"variant": var.name, "m": m, "block_ids": block, "shapes": "all (|A\\B|,|B\\A|,|A∩B|) with union <= umax", "subset_triples_enumerated": cfg_triples, "integer_identity_holds_at_every_position": cfg_ok}));
            }
            details.push(json!({"variant": var.name, "m": m, "subset_triples": cfg_triples, "identity_holds": cfg_ok}));
        }
    }
}

struct PartCfg {
    name: &'static str,
    ca: u64,
    cb: u64,
    cab: u64,
    m: usize,
    t_quick: u64,
    t_thorough: u64,
}

fn part_cfgs() -> Vec<PartCfg> {
    vec![
        PartCfg { name: "singleton inside 10^4", ca: 0, cb: 9999, cab: 1, m: 16, t_quick: 300, t_thorough: 5000 },
        PartCfg { name: "balanced 100/100/100, m=32", ca: 100, cb: 100, cab: 100, m: 32, t_quick: 4000, t_thorough: 100_000 },
        PartCfg { name: "nested 5000 in 10^4, m=8", ca: 0, cb: 5000, cab: 5000, m: 8, t_quick: 300, t_thorough: 5000 },
        PartCfg { name: "m>>n: 1/1/1, m=64", ca: 1, cb: 1, cab: 1, m: 64, t_quick: 20_000, t_thorough: 500_000 },
        PartCfg { name: "m>n: 3/2/5, m=256", ca: 3, cb: 2, cab: 5, m: 256, t_quick: 4000, t_thorough: 100_000 },
        PartCfg { name: "m<<n: 3000/3000/4000, m=4", ca: 3000, cb: 3000, cab: 4000, m: 4, t_quick: 400, t_thorough: 8000 },
        PartCfg { name: "m=1, 2/3/4", ca: 2, cb: 3, cab: 4, m: 1, t_quick: 40_000, t_thorough: 1_000_000 },
        PartCfg { name: "20/30/50, m=16", ca: 20, cb: 30, cab: 50, m: 16, t_quick: 10_000, t_thorough: 200_000 },
    ]
}

fn partition_checks(ctx: &Ctx, details: &mut Vec<Value>, evals: &mut u64) {
    let base0 = splitmix64(ctx.seed ^ 0xC03) >> 12;
    for (ci, c) in part_cfgs().iter().enumerate() {
        for var in variants().iter().filter(|v| v.name != "SuperMinHash2<u32,NoHash>" || c.ca + c.cb + c.cab < 1000) {
            let f = var.f;
            let m = c.m;
            let sk = move |items: &[u64]| f(m, items);
            let t = ctx.pick(c.t_quick, c.t_thorough);
            let base = if var.name.contains("u32,NoHash") { (base0 >> 24) + ((ci as u64) << 28) } else { base0 + ((ci as u64) << 44) };
            let run = |t: u64, base: u64| partition(&sk, base, c.ca, c.cb, c.cab, t, 0);
            let p = match run(t, base) {
                Ok(p) => p,
                Err(e) => {
                    ctx.violation(&format!("C03-sketch-failure:{}", var.name), &e, json!({"kind": "partition", "cfg": c.name, "variant": var.name}));
                    continue;
                }
            };
            *evals += 2 * t;
            let bound = p.j * (1. - p.j) / m as f64;
            let se_floor = (p.j * (1. - p.j) / (m as f64 * t as f64)).sqrt();
            let zmean = (p.mean - p.j) / p.se.max(se_floor).max(1e-12);
            let zmse = (p.mse - bound) / p.mse_se.max(1e-12);
            let mut bad_mean = zmean.abs() > 6.;
            let mut bad_mse = zmse > 6.;
            let mut confirm = None;
            if bad_mean || bad_mse {
                if let Ok(p2) = run(4 * t, base + (1u64 << 40)) {
                    *evals += 8 * t;
                    let z2 = (p2.mean - p2.j) / p2.se.max(se_floor / 2.).max(1e-12);
                    let zm2 = (p2.mse - bound) / p2.mse_se.max(1e-12);
                    bad_mean = bad_mean && z2.abs() > 6. && z2.signum() == zmean.signum();
                    bad_mse = bad_mse && zm2 > 6.;
                    confirm = Some((z2, zm2));
                }
            }
            let case = json!({"kind": "partition", "cfg": c.name, "variant": var.name, "t": t, "base": base.to_string()});
            if bad_mean {
                ctx.violation(
                    &format!("C03-mean:{}:{}", var.name, c.name),
                    &format!("{} {}: mean fraction of equal positions {:.6} over {} labellings vs J={:.6} (z={:.1}, confirm {:?})", var.name, c.name, p.mean, t, p.j, zmean, confirm),
                    case.clone(),
                );
            }
            if bad_mse {
                ctx.violation(
                    &format!("C03-mse:{}:{}", var.name, c.name),
                    &format!("{} {}: mean squared error {:.3e} exceeds J(1-J)/m = {:.3e} (z={:.1}, confirm {:?})", var.name, c.name, p.mse, bound, zmse, confirm),
                    case,
                );
            }
            details.push(json!({"cfg": c.name, "variant": var.name, "labellings": t, "J": p.j, "mean": p.mean, "z_mean": zmean, "mse": p.mse, "bound": bound, "mse_over_bound": if bound > 0. { p.mse / bound } else { 0. }, "z_mse": zmse}));
        }
    }
}

fn spearman_sqrt_n(a: &[f64], b: &[f64]) -> f64 {
    fn ranks(v: &[f64]) -> Vec<f64> {
        let mut idx: Vec<usize> = (0..v.len()).collect();
        idx.sort_by(|x, y| v[*x].partial_cmp(&v[*y]).unwrap());
        let mut r = vec![0.; v.len()];
        for (rank, i) in idx.into_iter().enumerate() {
            r[i] = rank as f64;
        }
        r
    }
    let (ra, rb) = (ranks(a), ranks(b));
    let n = a.len() as f64;
    let mean = (n - 1.) / 2.;
    let mut sxy = 0.;
    let mut sxx = 0.;
    let mut syy = 0.;
    for i in 0..a.len() {
        sxy += (ra[i] - mean) * (rb[i] - mean);
        sxx += (ra[i] - mean) * (ra[i] - mean);
        syy += (rb[i] - mean) * (rb[i] - mean);
    }
    if sxx == 0. || syy == 0. {
        return 0.;
    }
    sxy / (sxx * syy).sqrt() * n.sqrt()
}

struct LawStats {
    n: u64,
    not_perm: Option<String>,
    chi2: Option<(f64, f64)>, // (chi2, dof)
    worst_ks: f64,
    worst_corr: f64,
}

fn single_item_law(m: usize, base: u64, n: u64) -> LawStats {
    let rows: Vec<Result<Vec<f64>, String>> = (0..n)
        .into_par_iter()
        .map(|i| smh_f::<f64, FnvHasher>(m, &[base + i]).map(|v| v[0].iter().map(|b| f64::from_bits(*b)).collect()))
        .collect();
    let mut st = LawStats { n, not_perm: None, chi2: None, worst_ks: 0., worst_corr: 0. };
    let mut ints: Vec<Vec<usize>> = Vec::with_capacity(n as usize);
    let mut fracs: Vec<Vec<f64>> = vec![Vec::with_capacity(n as usize); m];
    for (i, r) in rows.iter().enumerate() {
        match r {
            Err(e) => {
                st.not_perm = Some(format!("item {}: {}", base + i as u64, e));
                return st;
            }
            Ok(v) => {
                let ip: Vec<usize> = v.iter().map(|x| x.floor() as usize).collect();
                let mut seen = vec![false; m];
                for &j in &ip {
                    if j >= m || seen[j] {
                        st.not_perm = Some(format!("item {}: integer parts {:?} are not a permutation of 0..{}", base + i as u64, ip, m));
                        return st;
                    }
                    seen[j] = true;
                }
                for k in 0..m {
                    fracs[k].push(v[k] - v[k].floor());
                }
                ints.push(ip);
            }
        }
    }
    if m <= 5 {
        let fact: usize = (1..=m).product();
        let mut counts: std::collections::HashMap<Vec<usize>, u64> = std::collections::HashMap::new();
        for ip in &ints {
            *counts.entry(ip.clone()).or_insert(0) += 1;
        }
        let e = n as f64 / fact as f64;
        let mut chi2: f64 = counts.values().map(|c| (*c as f64 - e) * (*c as f64 - e) / e).sum();
        chi2 += (fact - counts.len()) as f64 * e;
        st.chi2 = Some((chi2, (fact - 1) as f64));
    }
    for k in 0..m.min(8) {
        let mut s = fracs[k].clone();
        let d = ks_distance(&mut s, |x| x.clamp(0., 1.)) * (n as f64).sqrt();
        st.worst_ks = st.worst_ks.max(d);
    }
    if m >= 2 {
        st.worst_corr = st.worst_corr.max(spearman_sqrt_n(&fracs[0], &fracs[1]).abs());
        let ip0: Vec<f64> = ints.iter().map(|v| v[0] as f64 + 1e-9 * v[1] as f64).collect();
        st.worst_corr = st.worst_corr.max(spearman_sqrt_n(&ip0, &fracs[0]).abs());
        st.worst_corr = st.worst_corr.max(spearman_sqrt_n(&ip0, &fracs[1]).abs());
    }
    st
}

fn law_exceeds(st: &LawStats) -> Option<String> {
    let mut v = Vec::new();
    if let Some((c, d)) = st.chi2 {
        if d > 0. && crate::common::chi2_sf(c, d) < 1e-9 {
            v.push(format!("the {} orders of the integer parts are not equally frequent (chi2 = {:.1} on {} d.f.)", d + 1., c, d));
        }
    }
    if st.worst_ks > 3.4 {
        v.push(format!("fractional parts are not uniform (sqrt(N) KS = {:.2})", st.worst_ks));
    }
    if st.worst_corr > 6. {
        v.push(format!("fractional / integer parts are rank-correlated ({:.1} sigma)", st.worst_corr));
    }
    if v.is_empty() {
        None
    } else {
        Some(v.join("; "))
    }
}

/// J = 1: two streams that present the same set (items repeated, in another order) must give the estimate 1 exactly - the
/// bound J(1-J)/m leaves no room.  All duplicate/reorder patterns of two items, for every pair (x, y) with x a *rounding
/// witness* and y from a 64-item block.  Rounding witnesses: items whose single-item f32 sketch holds an exact integer >= 1,
/// i.e. a value r + j that rounded up to j + 1 - the one place where a stored value and its integer level disagree.
/// They are found by scanning 2^20 (2^22) items per size; the same number of ordinary items is used for the f64 sketcher.
pub fn same_set_streams(ctx: &Ctx, base: u64, key_prefix: &str) -> (u64, Vec<Value>) {
    let n_scan: u64 = ctx.pick(1 << 20, 1 << 22);
    let n_pairs_scan: u64 = 1 << 17;
    let mut details = Vec::new();
    let mut evals = 0u64;
    let patterns: [&[usize]; 7] = [&[0, 0, 1], &[1, 0, 0], &[0, 1, 0], &[0, 0, 0, 1, 1], &[1, 1, 0], &[0, 1, 1, 0], &[1, 0]];
    for (vname, f, scan) in [
        ("SuperMinHash<f32,Fnv>", smh_f::<f32, FnvHasher> as fn(usize, &[u64]) -> Result<Vec<Vec<u64>>, String>, true),
        ("SuperMinHash<f64,Fnv>", smh_f::<f64, FnvHasher>, false),
        ("SuperMinHash2<u64,Fnv>", smh2_u64::<FnvHasher>, false),
    ] {
        let is_float = vname.starts_with("SuperMinHash<");
        // m = 3: a deeper scan (a single-item sketch costs three draws), so that a witness density of 2^-24 is reached
        for &m in &[3usize, 4, 8, 12, 16, 32] {
            // (x, the items y it is paired with)
            let mut cases: Vec<(u64, Vec<u64>)> = Vec::new();
            let block: Vec<u64> = (0..64u64).map(|i| (base >> 1) + i).collect();
            let mut n_round = 0usize;
            let mut n_coll = 0usize;
            if scan {
                let n_here = if m == 3 { n_scan << 4 } else { n_scan };
                // one pass: rounding witnesses (a value that is an exact integer >= 1, or integer parts that are not a
                // permutation of 0..m) and, for the first 2^17 items, the (position, value) of the level-0 entry
                let scanned: Vec<(u64, bool, Option<(usize, u64)>)> = (0..n_here)
                    .into_par_iter()
                    .filter_map(|i| match f(m, &[base + i]) {
                        Ok(v) => {
                            let vals: Vec<f64> = v[0].iter().map(|b| f64::from_bits(*b)).collect();
                            let mut parts: Vec<u64> = vals.iter().map(|x| x.floor() as u64).collect();
                            parts.sort();
                            let witness = vals.iter().any(|x| *x >= 1. && x.fract() == 0.) || parts.iter().enumerate().any(|(k, p)| *p != k as u64);
                            let lvl0 = if i < n_pairs_scan { vals.iter().position(|x| *x < 1.).map(|p| (p, v[0][p])) } else { None };
                            if witness || lvl0.is_some() {
                                Some((base + i, witness, lvl0))
                            } else {
                                None
                            }
                        }
                        Err(_) => Some((base + i, true, None)),
                    })
                    .collect();
                evals += n_here;
                let mut w: Vec<u64> = scanned.iter().filter(|x| x.1).map(|x| x.0).collect();
                w.sort();
                w.truncate(48);
                n_round = w.len();
                for x in w {
                    cases.push((x, block.clone()));
                }
                // pairs of different items whose level-0 entry is the same (position, value): 24-bit values collide
                let mut by_key: std::collections::HashMap<(usize, u64), Vec<u64>> = std::collections::HashMap::new();
                for (x, _, l) in &scanned {
                    if let Some(k) = l {
                        by_key.entry(*k).or_default().push(*x);
                    }
                }
                let mut groups: Vec<Vec<u64>> = by_key.into_values().filter(|g| g.len() > 1).collect();
                groups.sort();
                for g in groups.into_iter().take(48) {
                    n_coll += 1;
                    cases.push((g[0], g[1..].to_vec()));
                }
            } else {
                for i in 0..8u64 {
                    cases.push((base + 1000 * i, block.clone()));
                }
            }
            let bad: Option<String> = cases
                .par_iter()
                .find_map_any(|(x, ys)| {
                    let sx = f(m, &[*x]).ok()?;
                    for y in ys {
                        let it = [*x, *y];
                        let reference = match f(m, &it) {
                            Ok(v) => v,
                            Err(e) => return Some(format!("sketch of {:?} failed: {}", it, e)),
                        };
                        if is_float {
                            // the sketch of {x,y} is the position-wise minimum of the sketches of {x} and {y}
                            if let Ok(sy) = f(m, &[*y]) {
                                for k in 0..m {
                                    let want = f64::from_bits(sx[0][k]).min(f64::from_bits(sy[0][k]));
                                    if f64::from_bits(reference[0][k]) != want {
                                        return Some(format!("the sketch of the stream {:?} holds {} at position {}, the smaller of the two single-item values is {}", it, f64::from_bits(reference[0][k]), k, want));
                                    }
                                }
                            }
                        }
                        for pat in patterns.iter() {
                            let stream: Vec<u64> = pat.iter().map(|i| it[*i]).collect();
                            match f(m, &stream) {
                                Ok(v) => {
                                    let eq = v[0].iter().zip(reference[0].iter()).filter(|(a, b)| a == b).count();
                                    if eq != m {
                                        return Some(format!("the streams {:?} and {:?} present the same set (J = 1) but only {} of {} sketch positions agree: estimate {}", it, stream, eq, m, eq as f64 / m as f64));
                                    }
                                }
                                Err(e) => return Some(format!("sketch of {:?} failed: {}", stream, e)),
                            }
                        }
                    }
                    None
                });
            evals += cases.iter().map(|c| c.1.len() * (patterns.len() + 2)).sum::<usize>() as u64;
            if let Some(w) = bad {
                ctx.violation(&format!("{}:{}", key_prefix, vname), &format!("{} m={}: {}", vname, m, w), json!({"kind": "same-set", "variant": vname, "m": m}));
                break;
            }
            details.push(json!({"variant": vname, "m": m, "first_items": cases.len(), "rounding_witnesses": n_round, "level0_collision_groups": n_coll, "stream_patterns": patterns.len()}));
        }
    }
    (evals, details)
}

/// The estimate users read is the crate's own: all four estimator entry points of both sketcher families against the
/// count of equal positions of the two sketches, for every pair of non-empty subsets of a small identifier alphabet that
/// contains the boundary identifiers 0 and u64::MAX (pre-hashed through the no-op hasher: slots may hold the value 0).
fn estimator_pass(ctx: &Ctx) -> u64 {
    let alphabet: [u64; 5] = [0, 1, 2, 3, u64::MAX];
    let subsets: Vec<Vec<u64>> = (1u32..32).map(|mask| (0..5).filter(|i| mask >> i & 1 == 1).map(|i| alphabet[i as usize]).collect()).collect();
    let mut n = 0u64;
    fn report(ctx: &Ctx, kind: &str, m: usize, a: &[u64], b: &[u64], which: &str, got: String, want: f64) {
        ctx.violation(
            &format!("C03-estimator:{}", kind),
            &format!("{} m={} sets {:?} / {:?}: {} returns {} but {} of the sketch positions agree", kind, m, a, b, which, got, want),
            json!({"kind": "estimator", "sketcher": kind, "m": m, "a": a.iter().map(|x| x.to_string()).collect::<Vec<_>>(), "b": b.iter().map(|x| x.to_string()).collect::<Vec<_>>()}),
        );
    }
    for &m in &[1usize, 2, 3, 8] {
        for a in &subsets {
            for b in &subsets {
                n += 1;
                // SuperMinHash2<u64, NoHash> and <u64, Fnv>
                macro_rules! smh2 {
                    ($h:ty, $label:expr) => {{
                        let r = guarded_mut(|| {
                            let mut sa = SuperMinHash2::<u64, u64, $h>::new(m, BuildHasherDefault::<$h>::default());
                            let mut sb = SuperMinHash2::<u64, u64, $h>::new(m, BuildHasherDefault::<$h>::default());
                            sa.sketch_slice(a).unwrap();
                            sb.sketch_slice(b).unwrap();
                            let (ha, hb) = (sa.get_hsketch().clone(), sb.get_hsketch().clone());
                            let want = ha.iter().zip(hb.iter()).filter(|(x, y)| x == y).count() as f64 / m as f64;
                            let e1 = sa.get_jaccard_index_estimate(&hb).map_err(|_| "Err".to_string());
                            let e2 = probminhash::superminhasher2::compute_superminhash_jaccard(&ha, &hb).map(|x| x as f64).map_err(|_| "Err".to_string());
                            let e3 = probminhash::superminhasher2::get_jaccard_index_estimate(&ha, &hb).map(|x| x as f64).map_err(|_| "Err".to_string());
                            (want, e1, e2, e3)
                        });
                        match r {
                            Err(p) => report(ctx, $label, m, a, b, "sketching / estimating", format!("panic {}", p), f64::NAN),
                            Ok((want, e1, e2, e3)) => {
                                for (which, e) in [("SuperMinHash2::get_jaccard_index_estimate", e1), ("superminhasher2::compute_superminhash_jaccard", e2), ("superminhasher2::get_jaccard_index_estimate", e3)] {
                                    match e {
                                        Ok(x) if (x - want).abs() <= 1e-6 => {}
                                        other => report(ctx, $label, m, a, b, which, format!("{:?}", other), want),
                                    }
                                }
                                if a == b && want != 1. {
                                    report(ctx, $label, m, a, b, "two sketches of the same set", "different sketches".into(), want);
                                }
                            }
                        }
                    }};
                }
                smh2!(NoHashHasher, "SuperMinHash2<u64,NoHash>");
                smh2!(FnvHasher, "SuperMinHash2<u64,Fnv>");
                macro_rules! smh {
                    ($f:ty, $h:ty, $label:expr) => {{
                        let r = guarded_mut(|| {
                            let mut sa = SuperMinHash::<$f, u64, $h>::new(m, BuildHasherDefault::<$h>::default());
                            let mut sb = SuperMinHash::<$f, u64, $h>::new(m, BuildHasherDefault::<$h>::default());
                            sa.sketch_slice(a).unwrap();
                            sb.sketch_slice(b).unwrap();
                            let (ha, hb) = (sa.get_hsketch().clone(), sb.get_hsketch().clone());
                            let want = ha.iter().zip(hb.iter()).filter(|(x, y)| x == y).count() as f64 / m as f64;
                            let e1 = sa.get_jaccard_index_estimate(&hb).map_err(|e| e.to_string());
                            let e2 = probminhash::superminhasher::compute_superminhash_jaccard(&ha, &hb).map(|x| x as f64).map_err(|e| e.to_string());
                            let e3 = probminhash::superminhasher::get_jaccard_index_estimate(&ha, &hb).map(|x| x as f64).map_err(|e| e.to_string());
                            (want, e1, e2, e3)
                        });
                        match r {
                            Err(p) => report(ctx, $label, m, a, b, "sketching / estimating", format!("panic {}", p), f64::NAN),
                            Ok((want, e1, e2, e3)) => {
                                for (which, e) in [("SuperMinHash::get_jaccard_index_estimate", e1), ("superminhasher::compute_superminhash_jaccard", e2), ("superminhasher::get_jaccard_index_estimate", e3)] {
                                    match e {
                                        Ok(x) if (x - want).abs() <= 1e-6 => {}
                                        other => report(ctx, $label, m, a, b, which, format!("{:?}", other), want),
                                    }
                                }
                                if a == b && want != 1. {
                                    report(ctx, $label, m, a, b, "two sketches of the same set", "different sketches".into(), want);
                                }
                            }
                        }
                    }};
                }
                smh!(f64, NoHashHasher, "SuperMinHash<f64,NoHash>");
                smh!(f32, FnvHasher, "SuperMinHash<f32,Fnv>");
            }
        }
    }
    4 * n
}

pub fn run(ctx: &Ctx) -> i32 {
    let base = splitmix64(ctx.seed ^ 0x1e77a) >> 20;
    let nblock = ctx.pick(10usize, 13);
    let umax = ctx.pick(4usize, 5);
    let block: Vec<u64> = (0..nblock as u64).map(|i| base + i).collect();
    let block2: Vec<u64> = (0..nblock as u64).map(|i| (base >> 3) + 7919 * i).collect();
    let ms: Vec<usize> = vec![1, 2, 3, 5, 8, 16, 33];
    let mut idetails = Vec::new();
    let mut totals = (0u64, 0u64, 0u64);
    identity_sweep(ctx, "C03", &variants(), &ms, &block, umax, &mut idetails, &mut totals);
    identity_sweep(ctx, "C03", &variants()[..4], &[2, 5, 16], &block2, umax.min(4), &mut idetails, &mut totals);
    println!("C03 identity: {} subset triples, {} sketches, {} (triple,view,position) comparisons", totals.0, totals.1, totals.2);
    let mut pdetails = Vec::new();
    let mut evals = 0u64;
    let est_pairs = estimator_pass(ctx);
    evals += est_pairs;
    println!("C03 estimators: {} (sketcher kind, pair of sets, m) cases through the crate's estimator entry points", est_pairs);
    partition_checks(ctx, &mut pdetails, &mut evals);
    // single-item law
    let n_law: u64 = ctx.pick(1 << 16, 1 << 19);
    let mut ldetails = Vec::new();
    for &m in &[1usize, 2, 3, 4, 5, 6, 16] {
        let st = single_item_law(m, base << 4, n_law);
        evals += n_law;
        let case = json!({"kind": "law", "m": m, "base": (base << 4).to_string(), "n": n_law});
        if let Some(w) = &st.not_perm {
            ctx.violation("C03-single-item-not-permutation", &format!("SuperMinHash<f64> m={}: {}", m, w), case.clone());
        }
        if let Some(w) = law_exceeds(&st) {
            let st2 = single_item_law(m, (base << 4) + (1 << 30), 4 * n_law);
            evals += 4 * n_law;
            if let Some(w2) = law_exceeds(&st2) {
                ctx.violation(&format!("C03-single-item-law:m={}", m), &format!("SuperMinHash<f64> m={}: {} (confirmed on a 4x larger fresh block: {})", m, w, w2), case);
            } else {
                ctx.note(format!("single-item law m={}: exceedance not confirmed: {}", m, w));
            }
        }
        ldetails.push(json!({"m": m, "items": st.n, "chi2_dof": st.chi2, "worst_sqrtN_KS_fraction": st.worst_ks, "worst_sqrtN_spearman": st.worst_corr}));
    }
    let (sevals, sdetails) = same_set_streams(ctx, base << 3, "C03-same-set");
    evals += sevals;
    println!("C03 same-set streams: {} configurations, (rounding witnesses, level-0 collision groups) per f32 size: {:?}", sdetails.len(), sdetails.iter().filter(|d| d["variant"] == json!("SuperMinHash<f32,Fnv>")).map(|d| (d["rounding_witnesses"].as_u64().unwrap_or(0), d["level0_collision_groups"].as_u64().unwrap_or(0))).collect::<Vec<_>>());
    let maxz = pdetails.iter().map(|d| d["z_mean"].as_f64().unwrap_or(0.).abs()).fold(0., f64::max);
    println!("C03 partition: {} configurations, max |z| = {:.2}; single-item law: {} items x 7 sizes", pdetails.len(), maxz, n_law);
    let coverage = json!({
        "states": totals.1,
        "transitions": totals.0,
        "traces_validated_against_impl": totals.1 + evals,
        "samples": [
            {"identity": {"variant": "SuperMinHash2<u32,XxHash32>", "m": 5, "shape": [1, 2, 1], "block": block, "statement": "collisions(p) * 4 == triples * 1 for every position p"}},
            {"partition": {"cfg": "m>>n: 1/1/1, m=64", "labelling_t": "A={3t,3t+2}, B={3t+1,3t+2} offset by the block base"}},
            {"law": {"m": 5, "item": base << 4}}
        ],
        "exhaustive": true,
        "exhaustive_scope": "part (1) enumerates every labelling of every shape by the block (exact integer identity); parts (2),(3) enumerate finite blocks of the identifier space with a 6-sigma / confirm rule",
        "evaluations": totals.0 + evals,
        "distinct_nontrivial": totals.1,
        "rule": "(1) for 9 sketcher variants (f32/f64 SuperMinHash, u32/u64 SuperMinHash2; Fnv, XxHash32 and no-op hashers; fresh instances and instances reused after reinit), m in {1,2,3,5,8,16,33}, every shape (|A\\B|,|B\\A|,|A∩B|) with union <=4 (5) and EVERY assignment of block identifiers (10 (13) ids, two blocks) to it: per position, collisions * u == triples * |A∩B| exactly (a broken identity is arbitrated on 2e5 fresh labellings before being reported); distinct = distinct subsets sketched; (2) 8 large / lopsided shapes x 7 variants on T disjoint labellings: |mean-J| <= 6 se and MSE <= J(1-J)/m + 6 se; (3) single-item sketches of 2^16 (2^19) items: integer parts a permutation (exact), orders equally frequent (chi2), fractions uniform (KS) and uncorrelated; (4) J = 1: for m in {3,4,8,12,16,32}, every pair (x,y) with x one of up to 48 rounding witnesses found by scanning 2^20 (2^22; 16x more at m = 3) items through the real f32 sketcher (a single-item value that is an exact integer, or integer parts that are not a permutation) and y from a 64-item block, every pair of up to 48 groups of items whose level-0 entries collide on (position, 24-bit value) among 2^17 items, and 8 ordinary items (f64, SuperMinHash2): 7 streams that repeat / reorder {x,y} give the positions of [x,y], which is the position-wise minimum of the two single-item sketches",
        "identity": idetails,
        "identity_subset_triples": totals.0,
        "identity_comparisons": totals.2,
        "partition": pdetails,
        "single_item_law": ldetails,
        "same_set_streams": sdetails,
    });
    ctx.finish(
        "model_checking",
        coverage,
        vec![
            "Lemma 1 needs a block without value ties; a broken identity is therefore arbitrated against the expectation before it is reported".into(),
            "parts (2) and (3) are finite-population statements (6 sigma, confirm on a 4x larger fresh block)".into(),
        ],
    )
}

pub fn replay(_ctx: &Ctx, case: &Value) -> Result<(bool, String), String> {
    match case["kind"].as_str() {
        Some("identity") => {
            let name = case["variant"].as_str().ok_or("variant")?;
            let m = case["m"].as_u64().ok_or("m")? as usize;
            let sh: Vec<usize> = case["shape"].as_array().ok_or("shape")?.iter().map(|v| v.as_u64().unwrap_or(0) as usize).collect();
            let block: Vec<u64> = case["block"].as_array().ok_or("block")?.iter().map(|v| v.as_u64().unwrap_or(0)).collect();
            let var = variants().into_iter().find(|v| v.name == name).ok_or("variant")?;
            let f = var.f;
            let sk = move |items: &[u64]| f(m, items);
            let o = check_identity(&sk, &block, sh[0], sh[1], sh[2]);
            Ok((o.broken.is_some() || o.error.is_some(), format!("identity broken: {:?} error: {:?}", o.broken, o.error)))
        }
        Some(_) => Err("statistical cases are re-derived by running the check itself (deterministic in VERIF_SEED)".into()),
        None => Err("kind".into()),
    }
}
