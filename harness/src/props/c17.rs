//! C17 — the lazy Fisher-Yates shuffle yields uniform permutations and forgets history on reset.
//! Probabilistic explicit-state exploration of the real FYshuffle under a scripted generator (engine B), exact.

use crate::common::{guarded_mut, Ctx};
use crate::script::{word_for_k, word_mid, Script};
use probminhash::fyshuffle::FYshuffle;
use serde_json::{json, Value};

thread_local! {
    static SAMPLE: std::cell::RefCell<Option<Value>> = const { std::cell::RefCell::new(None) };
}

/// rank of a permutation of 0..m in 0..m! (Lehmer code)
fn lehmer_rank(p: &[usize]) -> usize {
    let m = p.len();
    let mut rank = 0usize;
    for i in 0..m {
        let mut smaller = 0;
        for j in (i + 1)..m {
            if p[j] < p[i] {
                smaller += 1;
            }
        }
        rank = rank * (m - i) + smaller;
    }
    rank
}

fn is_perm(v: &[usize]) -> bool {
    let m = v.len();
    let mut seen = vec![false; m];
    for &x in v {
        if x >= m || seen[x] {
            return false;
        }
        seen[x] = true;
    }
    true
}

/// words for a sequence of choices starting with cursor position `start` (cursor wraps at m)
fn words_for_choices(m: usize, start: usize, choices: &[usize]) -> Vec<u64> {
    let mut cur = start;
    let mut w = Vec::with_capacity(choices.len());
    for &c in choices {
        if cur >= m {
            cur = 0;
        }
        let r = m - cur;
        w.push(word_mid(c as u64, r as u64));
        cur += 1;
    }
    w
}

/// enumerate all choice vectors for `n` draws starting at cursor 0 (radix m-cur, wrapping)
fn for_all_choice_vectors(m: usize, n: usize, mut f: impl FnMut(&[usize])) {
    let radices: Vec<usize> = (0..n).map(|i| m - (i % m)).collect();
    let mut c = vec![0usize; n];
    loop {
        f(&c);
        let mut p = n;
        loop {
            if p == 0 {
                return;
            }
            p -= 1;
            c[p] += 1;
            if c[p] < radices[p] {
                break;
            }
            c[p] = 0;
        }
    }
}

struct DrawOut {
    out: Vec<usize>,
    consumed: usize,
    overrun: usize,
}

fn draw_n(fy: &mut FYshuffle, words: &[u64], n: usize) -> DrawOut {
    let mut s = Script::new(words);
    let mut out = Vec::with_capacity(n);
    for _ in 0..n {
        out.push(fy.next(&mut s));
    }
    DrawOut { out, consumed: s.consumed(), overrun: s.overrun }
}

enum Outcome {
    Ok,
    Violation(String),
    Engine(String),
}

/// (a) all m! scripts after a reset / on a fresh instance: script -> output is a bijection onto the permutations
fn check_bijection(m: usize, stats: &mut Stats) -> Outcome {
    let fact: u64 = (1..=m as u64).product();
    // bitset over the Lehmer rank of the output order
    let mut seen = vec![0u64; (fact as usize + 63) / 64];
    let mut nseen = 0u64;
    let mut nscripts = 0u64;
    let mut bad: Option<Outcome> = None;
    let mut ref_mismatch = 0u64;
    for_all_choice_vectors(m, m, |c| {
        if bad.is_some() {
            return;
        }
        let words = words_for_choices(m, 0, c);
        let mut fy = FYshuffle::new(m);
        let r = guarded_mut(|| draw_n(&mut fy, &words, m));
        nscripts += 1;
        match r {
            Err(p) => bad = Some(Outcome::Violation(format!("m={} choices {:?}: panic {}", m, c, p))),
            Ok(d) => {
                if d.consumed != m || d.overrun != 0 {
                    bad = Some(Outcome::Engine(format!(
                        "m={}: {} draws consumed {} generator words (+{} beyond the script); the one-word-per-draw script model does not apply",
                        m, m, d.consumed, d.overrun
                    )));
                    return;
                }
                if !is_perm(&d.out) {
                    bad = Some(Outcome::Violation(format!("m={} choices {:?}: {} draws returned {:?}, not a permutation of 0..m", m, c, m, d.out)));
                    return;
                }
                if !is_perm(fy.get_values()) {
                    bad = Some(Outcome::Violation(format!("m={} choices {:?}: get_values() = {:?} is not a permutation", m, c, fy.get_values())));
                    return;
                }
                // boring reference model of Fisher-Yates (informational)
                let mut v: Vec<usize> = (0..m).collect();
                let mut refout = Vec::with_capacity(m);
                for (i, ci) in c.iter().enumerate() {
                    refout.push(v[i + ci]);
                    v.swap(i + ci, i);
                }
                if refout != d.out {
                    ref_mismatch += 1;
                }
                if nscripts == 5 && m >= 3 {
                    SAMPLE.with(|s| *s.borrow_mut() = Some(json!({"m": m, "choices": c, "generator_words_hex": words.iter().map(|w| format!("{:#x}", w)).collect::<Vec<_>>(), "order_drawn": d.out})));
                }
                let rk = lehmer_rank(&d.out);
                if seen[rk / 64] & (1u64 << (rk % 64)) == 0 {
                    seen[rk / 64] |= 1u64 << (rk % 64);
                    nseen += 1;
                }
            }
        }
    });
    stats.scripts += nscripts;
    stats.draws += nscripts * m as u64;
    stats.ref_mismatch += ref_mismatch;
    if let Some(b) = bad {
        return b;
    }
    stats.distinct_perms += nseen;
    if nscripts != fact || nseen != fact {
        return Outcome::Violation(format!(
            "m={}: {} scripts (one per product of equal-probability intervals) produce only {} distinct orders out of {}: orders are not equally likely",
            m, nscripts, nseen, fact
        ));
    }
    Outcome::Ok
}

/// (b) interval ends: first draw of a fresh shuffle of size r returns the index itself
fn first_draw_index(r: usize, k: u64) -> Result<usize, String> {
    let words = [word_for_k(k)];
    guarded_mut(|| {
        let mut fy = FYshuffle::new(r);
        let mut s = Script::new(&words);
        fy.next(&mut s)
    })
}

fn check_boundaries(r: usize, cs: &[usize], stats: &mut Stats) -> Outcome {
    let two52: u128 = 1u128 << 52;
    for &c in cs {
        // smallest k with k*r >= c*2^52
        let k0 = ((c as u128 * two52 + r as u128 - 1) / r as u128) as u64;
        let mut probes: Vec<(u64, Vec<usize>)> = vec![(k0, vec![c])];
        if c > 0 {
            probes.push((k0 - 1, vec![c - 1, c])); // one word below the boundary: float rounding of xsi*r may round up
            if k0 >= 2 && ((k0 - 2) as u128 * r as u128) >= ((c - 1) as u128 * two52) {
                probes.push((k0 - 2, vec![c - 1]));
            }
        }
        for (k, allowed) in probes {
            if k >= (1u64 << 52) {
                continue;
            }
            stats.boundary_probes += 1;
            match first_draw_index(r, k) {
                Err(p) => return Outcome::Violation(format!("r={} generator value {}*2^-52: panic {}", r, k, p)),
                Ok(idx) => {
                    if idx >= r {
                        return Outcome::Violation(format!("r={} generator value {}*2^-52: index {} out of range", r, k, idx));
                    }
                    if !allowed.contains(&idx) {
                        return Outcome::Violation(format!(
                            "r={} generator value {}*2^-52 (boundary of interval {}): drew index {}, expected one of {:?}",
                            r, k, c, idx, allowed
                        ));
                    }
                    if allowed.len() == 2 && idx == c {
                        stats.rounded_up_words += 1;
                    }
                }
            }
        }
    }
    // top of the unit interval
    stats.boundary_probes += 1;
    match first_draw_index(r, (1u64 << 52) - 1) {
        Err(p) => Outcome::Violation(format!("r={} largest generator value: panic {}", r, p)),
        Ok(idx) => {
            if idx != r - 1 {
                Outcome::Violation(format!("r={} largest generator value 1-2^-52: index {} (expected {}, must stay in range)", r, idx, r - 1))
            } else {
                Outcome::Ok
            }
        }
    }
}

/// (c) history independence: every pre-reset history of h draws, reset, then every script of m draws equals the fresh instance
fn check_history(m: usize, hmax: usize, stats: &mut Stats) -> Outcome {
    // outputs of a fresh instance for every script
    let mut fresh: Vec<(Vec<usize>, Vec<u64>, Vec<usize>)> = Vec::new();
    let mut bad: Option<Outcome> = None;
    for_all_choice_vectors(m, m, |c| {
        let words = words_for_choices(m, 0, c);
        match guarded_mut(|| {
            let mut fy = FYshuffle::new(m);
            draw_n(&mut fy, &words, m)
        }) {
            Ok(d) => fresh.push((c.to_vec(), words, d.out)),
            Err(p) => bad = Some(Outcome::Violation(format!("m={} fresh instance, choices {:?}: panic {}", m, c, p))),
        }
    });
    if let Some(b) = bad {
        return b;
    }
    for h in 0..=hmax {
        for_all_choice_vectors(m, h, |pre| {
            if bad.is_some() {
                return;
            }
            let prew = words_for_choices(m, 0, pre);
            for (c, words, expect) in fresh.iter() {
                let r = guarded_mut(|| {
                    let mut fy = FYshuffle::new(m);
                    let _ = draw_n(&mut fy, &prew, h);
                    fy.reset();
                    draw_n(&mut fy, words, m)
                });
                stats.history_runs += 1;
                stats.draws += (h + m) as u64;
                match r {
                    Err(p) => {
                        bad = Some(Outcome::Violation(format!("m={} history {:?} reset script {:?}: panic {}", m, pre, c, p)));
                        return;
                    }
                    Ok(d) => {
                        if &d.out != expect {
                            bad = Some(Outcome::Violation(format!(
                                "m={}: after history of {} draws (choices {:?}) and reset, script {:?} gives {:?}; a fresh instance gives {:?}",
                                m, h, pre, c, d.out, expect
                            )));
                            return;
                        }
                    }
                }
            }
        });
        if bad.is_some() {
            break;
        }
    }
    bad.unwrap_or(Outcome::Ok)
}

/// (d) without reset every further block of m draws is a permutation and get_values() is a permutation at all times
fn check_blocks(m: usize, nblocks: usize, stats: &mut Stats) -> Outcome {
    let n = m * nblocks;
    let mut bad: Option<Outcome> = None;
    for_all_choice_vectors(m, n, |c| {
        if bad.is_some() {
            return;
        }
        let words = words_for_choices(m, 0, c);
        let r = guarded_mut(|| {
            let mut fy = FYshuffle::new(m);
            let mut s = Script::new(&words);
            let mut out = Vec::with_capacity(n);
            let mut values_ok = true;
            for _ in 0..n {
                out.push(fy.next(&mut s));
                if !is_perm(fy.get_values()) {
                    values_ok = false;
                }
            }
            (out, values_ok, s.consumed(), s.overrun)
        });
        stats.block_runs += 1;
        stats.draws += n as u64;
        match r {
            Err(p) => bad = Some(Outcome::Violation(format!("m={} {} draws choices {:?}: panic {}", m, n, c, p))),
            Ok((out, values_ok, consumed, overrun)) => {
                if consumed != n || overrun != 0 {
                    bad = Some(Outcome::Engine(format!("m={}: {} draws consumed {} words", m, n, consumed)));
                    return;
                }
                if !values_ok {
                    bad = Some(Outcome::Violation(format!("m={} choices {:?}: get_values() stopped being a permutation", m, c)));
                    return;
                }
                for b in 0..nblocks {
                    if !is_perm(&out[b * m..(b + 1) * m]) {
                        bad = Some(Outcome::Violation(format!(
                            "m={} no reset, choices {:?}: block {} of m draws = {:?} is not a permutation",
                            m,
                            c,
                            b,
                            &out[b * m..(b + 1) * m]
                        )));
                        return;
                    }
                }
            }
        }
    });
    bad.unwrap_or(Outcome::Ok)
}

/// (e) large m, very short histories: every history of 1 and 2 draws (all choices), and of 3-4 draws with small choices,
/// then reset, then m draws under the all-zero script: the result must be the fresh instance's (the identity order)
fn check_short_histories_large_m(m: usize, stats: &mut Stats) -> Outcome {
    let zero_words: Vec<u64> = vec![word_for_k(0); m];
    let fresh = match guarded_mut(|| {
        let mut fy = FYshuffle::new(m);
        draw_n(&mut fy, &zero_words, m).out
    }) {
        Ok(v) => v,
        Err(p) => return Outcome::Violation(format!("m={} fresh instance: panic {}", m, p)),
    };
    let mut histories: Vec<Vec<usize>> = Vec::new();
    for c0 in 0..m {
        histories.push(vec![c0]);
    }
    for c0 in 0..m {
        for c1 in 0..(m - 1) {
            if m <= 200 || c0 < 24 || c1 < 24 {
                histories.push(vec![c0, c1]);
            }
        }
    }
    for c0 in 0..6 {
        for c1 in 0..6 {
            for c2 in 0..6 {
                histories.push(vec![c0, c1, c2]);
                for c3 in 0..4 {
                    histories.push(vec![c0, c1, c2, c3]);
                }
            }
        }
    }
    for h in histories {
        let prew = words_for_choices(m, 0, &h);
        let r = guarded_mut(|| {
            let mut fy = FYshuffle::new(m);
            let _ = draw_n(&mut fy, &prew, h.len());
            fy.reset();
            let d = draw_n(&mut fy, &zero_words, m);
            (d.out, is_perm(fy.get_values()))
        });
        stats.history_runs += 1;
        stats.draws += (h.len() + m) as u64;
        match r {
            Err(p) => return Outcome::Violation(format!("m={} history {:?} then reset: panic {}", m, h, p)),
            Ok((out, vperm)) => {
                if out != fresh || !vperm {
                    let bad = (0..m).find(|i| out[*i] != fresh[*i]).unwrap_or(0);
                    return Outcome::Violation(format!(
                        "m={}: after a history of {} draws (choices {:?}) and reset, {} draws under the all-zero script differ from a fresh instance at draw {} ({} instead of {}); block is a permutation: {}",
                        m, h.len(), h, m, bad, out[bad], fresh[bad], is_perm(&out)
                    ));
                }
            }
        }
    }
    Outcome::Ok
}

/// (g) an instance is a value: built on one thread and moved to another (a thread that never built a shuffler, or only a
/// smaller one), it must behave as on its own thread - a draw history, reset, then m draws under the all-zero script give
/// the fresh instance's order.  State kept per thread instead of per instance shows here.
fn check_moved_across_threads(m: usize, stats: &mut Stats) -> Outcome {
    let zero_words: Vec<u64> = vec![word_for_k(0); m];
    let fresh = match guarded_mut(|| {
        let mut fy = FYshuffle::new(m);
        draw_n(&mut fy, &zero_words, m).out
    }) {
        Ok(v) => v,
        Err(p) => return Outcome::Violation(format!("m={} fresh instance: panic {}", m, p)),
    };
    let histories: Vec<Vec<usize>> = vec![vec![], vec![m - 1], vec![m / 2, 0], (0..m.min(5)).map(|i| (m - 1 - i) / 2).collect()];
    for h in histories {
        for smaller_first in [false, true] {
            let prew = words_for_choices(m, 0, &h);
            let zw = zero_words.clone();
            let hl = h.len();
            let made_here = match guarded_mut(|| FYshuffle::new(m)) {
                Ok(f) => f,
                Err(p) => return Outcome::Violation(format!("m={}: new panics {}", m, p)),
            };
            let handle = std::thread::spawn(move || {
                let mut fy = made_here;
                if smaller_first && m >= 2 {
                    let mut small = FYshuffle::new(m / 2);
                    let w = vec![word_for_k(0); m / 2];
                    let _ = draw_n(&mut small, &w, m / 2);
                }
                let _ = draw_n(&mut fy, &prew, hl);
                fy.reset();
                let d = draw_n(&mut fy, &zw, m);
                (d.out, is_perm(fy.get_values()))
            });
            stats.history_runs += 1;
            stats.draws += (hl + m) as u64;
            match handle.join() {
                Err(_) => return Outcome::Violation(format!("m={}: an instance moved to another thread panics on history {:?}, reset, {} draws", m, h, m)),
                Ok((out, vperm)) => {
                    if out != fresh || !vperm {
                        return Outcome::Violation(format!(
                            "m={}: an instance built on one thread and moved to {} gives, after the draw history {:?} and reset, the block {:?} instead of the fresh instance's {:?} (a permutation: {})",
                            m,
                            if smaller_first { "a thread that had only built a smaller shuffler" } else { "a thread that never built a shuffler" },
                            h,
                            &out[..out.len().min(12)],
                            &fresh[..fresh.len().min(12)],
                            is_perm(&out)
                        ));
                    }
                }
            }
        }
    }
    Outcome::Ok
}

/// (f) long runs (a counter or cursor narrower than usize shows after 2^8 / 2^16 draws, blocks or resets, or from 2^16
/// elements on): under a patterned script (choices 0, r-1, r/2, 1, ... cycling) every block of m draws without reset is a
/// permutation; after `cycles` cycles of (a few draws, reset) m draws under the all-zero script equal a fresh instance's.
fn check_long_runs(m: usize, draws: usize, cycles: usize, stats: &mut Stats) -> Outcome {
    let pattern = |i: usize, r: usize| -> usize { [0, r - 1, r / 2, 1 % r, r / 3, (r - 1) / 2][i % 6] % r };
    let r = guarded_mut(|| -> Result<(), String> {
        // blocks without reset
        let nblocks = (draws + m - 1) / m;
        let mut fy = FYshuffle::new(m);
        let mut i = 0usize;
        for b in 0..nblocks {
            let choices: Vec<usize> = (0..m).map(|t| pattern(i + t, m - t)).collect();
            i += m;
            let words = words_for_choices(m, 0, &choices);
            let d = draw_n(&mut fy, &words, m);
            if !is_perm(&d.out) {
                return Err(format!("m={} no reset: block {} of m draws is not a permutation", m, b));
            }
            if !is_perm(fy.get_values()) {
                return Err(format!("m={} no reset: get_values() is not a permutation after block {}", m, b));
            }
        }
        // reset cycles
        let zero_words: Vec<u64> = vec![word_for_k(0); m];
        let fresh = {
            let mut f2 = FYshuffle::new(m);
            draw_n(&mut f2, &zero_words, m).out
        };
        let mut fy = FYshuffle::new(m);
        let pre = m.min(3);
        for c in 0..cycles {
            let choices: Vec<usize> = (0..pre).map(|t| pattern(c + t, m - t)).collect();
            let words = words_for_choices(m, 0, &choices);
            let _ = draw_n(&mut fy, &words, pre);
            fy.reset();
            // the probe is part of the history (no extra reset, which would shift the count): for small m after every
            // cycle, for large m after the last one
            if m <= 300 || c + 1 == cycles {
                let d = draw_n(&mut fy, &zero_words, m);
                if d.out != fresh {
                    return Err(format!("m={}: after {} cycles of ({} draws, reset) the next m draws differ from a fresh instance's", m, c + 1, pre));
                }
            }
        }
        Ok(())
    });
    stats.block_runs += 1;
    stats.draws += (draws + cycles * 3 + if m <= 300 { cycles * m } else { m }) as u64;
    match r {
        Ok(Ok(())) => Outcome::Ok,
        Ok(Err(w)) => Outcome::Violation(w),
        Err(p) => Outcome::Violation(format!("m={} long run: panic {}", m, p)),
    }
}

#[derive(Default)]
struct Stats {
    scripts: u64,
    draws: u64,
    distinct_perms: u64,
    ref_mismatch: u64,
    boundary_probes: u64,
    rounded_up_words: u64,
    history_runs: u64,
    block_runs: u64,
}

fn boundary_cs(r: usize) -> Vec<usize> {
    if r <= 64 {
        (0..r).collect()
    } else {
        let mut v = vec![0, 1, 2, 3, r / 3, r / 2, r / 2 + 1, r - 3, r - 2, r - 1];
        v.sort();
        v.dedup();
        v
    }
}

fn handle(ctx: &Ctx, o: Outcome, key: String, case: Value) -> Result<(), i32> {
    match o {
        Outcome::Ok => Ok(()),
        Outcome::Violation(w) => {
            ctx.violation(&key, &w, case);
            Ok(())
        }
        Outcome::Engine(w) => {
            eprintln!("ENGINE-ERROR C17 {}", w);
            println!("ENGINE-ERROR C17 {}", w);
            Err(2)
        }
    }
}

pub fn run(ctx: &Ctx) -> i32 {
    if let Err(e) = crate::script::selfcheck_uniform_mapping() {
        println!("ENGINE-ERROR C17 script self-check: {}", e);
        return 2;
    }
    let mut st = Stats::default();
    let max_m = ctx.pick(9, 11);
    for m in 1..=max_m {
        let o = check_bijection(m, &mut st);
        if let Some(sv) = SAMPLE.with(|s| s.borrow_mut().take()) {
            if m <= 5 {
                ctx.sample(sv);
            }
        }
        if let Err(c) = handle(ctx, o, format!("bijection:m={}", m), json!({"kind": "bijection", "m": m})) {
            return c;
        }
    }
    let mut rs: Vec<usize> = (1..=64).collect();
    rs.extend_from_slice(&[100, 1000, 4095, 4096, 4097, 65536, 1_000_003, 1 << 20, (1 << 20) + 1, (1 << 20) + 3, 3_000_001]);
    if !ctx.quick() {
        rs.extend_from_slice(&[(1 << 24) - 1, 1 << 24, (1 << 26) + 1]);
    }
    for &r in &rs {
        let o = check_boundaries(r, &boundary_cs(r), &mut st);
        if let Err(c) = handle(ctx, o, format!("boundary:r={}", r), json!({"kind": "boundary", "r": r})) {
            return c;
        }
    }
    let hist: Vec<(usize, usize)> = if ctx.quick() { vec![(1, 3), (2, 4), (3, 6), (4, 8)] } else { vec![(1, 4), (2, 6), (3, 9), (4, 8), (5, 7)] };
    for &(m, hmax) in &hist {
        let o = check_history(m, hmax, &mut st);
        if let Err(c) = handle(ctx, o, format!("history:m={}", m), json!({"kind": "history", "m": m, "hmax": hmax})) {
            return c;
        }
    }
    for &m in &ctx.pick(vec![64usize, 128, 192, 256, 1000], vec![64, 128, 129, 192, 256, 320, 1000, 4096]) {
        let o = check_short_histories_large_m(m, &mut st);
        if let Err(c) = handle(ctx, o, format!("short-history-large-m:m={}", m), json!({"kind": "short-history", "m": m})) {
            return c;
        }
    }
    for &m in &[1usize, 2, 3, 5, 16, 100, 1000] {
        let o = check_moved_across_threads(m, &mut st);
        if let Err(c) = handle(ctx, o, format!("moved-across-threads:m={}", m), json!({"kind": "moved", "m": m})) {
            return c;
        }
    }
    let blocks: Vec<(usize, usize)> = if ctx.quick() { vec![(1, 3), (2, 3), (3, 3), (4, 2), (5, 2)] } else { vec![(1, 4), (2, 4), (3, 3), (4, 3), (5, 2), (6, 2)] };
    for &(m, nb) in &blocks {
        let o = check_blocks(m, nb, &mut st);
        if let Err(c) = handle(ctx, o, format!("blocks:m={}", m), json!({"kind": "blocks", "m": m, "nblocks": nb})) {
            return c;
        }
    }
    let mut long: Vec<(usize, usize, usize)> = vec![(1, 70_000, 70_000), (2, 140_000, 70_000), (3, 200_000, 70_000), (5, 330_000, 70_000), (255, 70_000, 70_000), (256, 70_000, 66_000), (257, 70_000, 66_000)];
    long.extend_from_slice(&[(65_535, 131_070, 3), (65_536, 131_072, 3), (65_537, 131_074, 3), (100_003, 200_006, 2), (1_048_579, 2_097_158, 2)]);
    for &(m, draws, cycles) in &long {
        let o = check_long_runs(m, draws, cycles, &mut st);
        if let Err(c) = handle(ctx, o, format!("long-run:m={}", m), json!({"kind": "long-run", "m": m, "draws": draws, "cycles": cycles})) {
            return c;
        }
    }
    // with a trace-level logger installed (log macros evaluate their arguments only then): all scripts of m <= 5, one long run
    {
        let outs = crate::common::with_trace_logging(|| {
            let mut v = Vec::new();
            for m in 1..=5 {
                v.push((format!("logging:bijection:m={}", m), check_bijection(m, &mut st)));
            }
            v.push(("logging:long-run:m=3".to_string(), check_long_runs(3, 3000, 300, &mut st)));
            v.push(("logging:history:m=3".to_string(), check_history(3, 4, &mut st)));
            v
        });
        let _ = SAMPLE.with(|s| s.borrow_mut().take());
        for (key, o) in outs {
            if let Err(c) = handle(ctx, o, key, json!({"kind": "logging"})) {
                return c;
            }
        }
    }
    if st.ref_mismatch > 0 {
        ctx.note(format!("{} scripts give an order different from the textbook Fisher-Yates reference (informational; the bijection is what is required)", st.ref_mismatch));
    }
    println!(
        "C17 scripts={} distinct_orders={} boundary_probes={} rounded_up_boundary_words={} history_runs={} block_runs={}",
        st.scripts, st.distinct_perms, st.boundary_probes, st.rounded_up_words, st.history_runs, st.block_runs
    );
    let execs = st.scripts + st.boundary_probes + st.history_runs + st.block_runs;
    let coverage = json!({
        "states": st.distinct_perms,
        "transitions": st.draws,
        "traces_validated_against_impl": execs,
        "samples": [
            {"bijection": {"m": 3, "choices": [2, 0, 0], "words_hex": words_for_choices(3, 0, &[2, 0, 0]).iter().map(|w| format!("{:#x}", w)).collect::<Vec<_>>()}},
            {"boundary": {"r": 3, "interval": 1, "probe_k": [1501199875790164u64, 1501199875790165u64, 1501199875790166u64]}},
            {"history": {"m": 3, "pre_choices": [1, 1, 0, 2], "then": "reset", "post_choices": [0, 1, 0]}},
            {"blocks": {"m": 2, "choices": [1, 0, 0, 0, 1, 0]}}
        ],
        "exhaustive": true,
        "evaluations": execs,
        "distinct_nontrivial": st.distinct_perms,
        "rule": "every script (one generator word per draw, the midpoint of each of the r=m-cursor equal sub-intervals) is run on the real FYshuffle; a case is distinct by its output order; (a) script->order is a bijection onto the m! orders, each script being a product of intervals of measure prod 1/r up to one 2^-52 word per boundary, (b) interval ends and the largest generator value stay in range for every r<=64 and selected large r, (c) every pre-reset history then reset equals a fresh instance (all histories for m<=4(5); for m in {64,128,192,256,1000,(4096)} all histories of 1-2 draws and small-choice histories of 3-4 draws), (d) every block of m draws without reset is a permutation, (e) long runs under one patterned script: >= 70000 draws without reset and >= 66000 cycles of (3 draws, reset, m draws compared with a fresh instance) for m in {1,2,3,5,255,256,257}, two full blocks and a few cycles for m in {65535,65536,65537,100003,1048579}, (f) all scripts for m <= 5, the histories of m = 3 and one long run again with a trace-level logger installed",
        "max_m_bijection": max_m,
        "scripts": st.scripts,
        "distinct_orders_total": st.distinct_perms,
        "boundary_probes": st.boundary_probes,
        "boundary_words_rounded_up_by_float_product": st.rounded_up_words,
        "history_runs": st.history_runs,
        "history_configs_m_hmax": hist,
        "block_runs": st.block_runs,
        "block_configs_m_nblocks": blocks,
        "reference_fisher_yates_mismatches": st.ref_mismatch,
    });
    ctx.finish(
        "model_checking",
        coverage,
        vec![
            "rand 0.9 Uniform<f64>::new(0,1) maps a 64-bit word w to (w>>12)*2^-52 (self-checked at start)".into(),
            "equal probability is exact up to the 2^-52 granularity of the generator: interval boundaries are verified to lie within one word of c/r".into(),
            "sizes m above the explored bound behave like those below".into(),
        ],
    )
}

pub fn replay(_ctx: &Ctx, case: &Value) -> Result<(bool, String), String> {
    let mut st = Stats::default();
    let o = match case["kind"].as_str() {
        Some("bijection") => check_bijection(case["m"].as_u64().ok_or("m")? as usize, &mut st),
        Some("boundary") => {
            let r = case["r"].as_u64().ok_or("r")? as usize;
            check_boundaries(r, &boundary_cs(r), &mut st)
        }
        Some("history") => check_history(case["m"].as_u64().ok_or("m")? as usize, case["hmax"].as_u64().ok_or("hmax")? as usize, &mut st),
        Some("moved") => check_moved_across_threads(case["m"].as_u64().ok_or("m")? as usize, &mut st),
        Some("short-history") => check_short_histories_large_m(case["m"].as_u64().ok_or("m")? as usize, &mut st),
        Some("long-run") => check_long_runs(case["m"].as_u64().ok_or("m")? as usize, case["draws"].as_u64().ok_or("draws")? as usize, case["cycles"].as_u64().ok_or("cycles")? as usize, &mut st),
        Some("blocks") => check_blocks(case["m"].as_u64().ok_or("m")? as usize, case["nblocks"].as_u64().ok_or("nblocks")? as usize, &mut st),
        Some("logging") => return Err("re-derived by running the check itself".into()),
        _ => return Err("unknown case kind".into()),
    };
    match o {
        Outcome::Ok => Ok((false, "holds".into())),
        Outcome::Violation(w) => Ok((true, w)),
        Outcome::Engine(w) => Err(w),
    }
}
