//! C12 — a sketch is a pure function of parameters, hasher and input.
//! (1) every interleaving of the calls of 2-3 instances (call granularity, one thread) must give each instance its
//! solo result; (2) free-running threads (sampling, labelled so); (3) repeated process launches.

use crate::common::{run_self, Ctx};
use crate::sketchers::{catalogue, Applied, Inst, Kind, Op};
use rayon::prelude::*;
use serde_json::{json, Value};
use std::collections::BTreeMap;
use std::sync::{Arc, Barrier};
use std::time::Duration;

fn script(offset: u64) -> Vec<Op> {
    vec![Op::Slice(vec![offset + 1, offset + 2, offset + 3, offset + 4]), Op::Burst(offset + 100, 12), Op::Item(offset + 7), Op::Slice(vec![offset + 3, offset + 9])]
}

fn fnv_words(w: &[u64]) -> u64 {
    let mut h: u64 = 0xcbf29ce484222325;
    for x in w {
        for b in x.to_le_bytes() {
            h ^= b as u64;
            h = h.wrapping_mul(0x100000001b3);
        }
    }
    h
}

type Obs = Result<Vec<u64>, String>;

fn apply_checked(inst: &mut Box<dyn Inst>, op: &Op) -> Result<(), String> {
    match inst.apply(op) {
        Applied::Done | Applied::Unsupported => Ok(()),
        Applied::Failed(e) => Err(e),
    }
}

fn solo(kind: &Kind, ops: &[Op]) -> Obs {
    let mut inst = (kind.build)();
    for op in ops {
        apply_checked(&mut inst, op)?;
    }
    inst.observe()
}

/// all interleavings of n sequences with `len` steps each (step 0 = construction), as lists of instance ids
fn interleavings(n: usize, len: usize) -> Vec<Vec<usize>> {
    fn rec(rem: &mut Vec<usize>, cur: &mut Vec<usize>, out: &mut Vec<Vec<usize>>) {
        if rem.iter().all(|r| *r == 0) {
            out.push(cur.clone());
            return;
        }
        for i in 0..rem.len() {
            if rem[i] > 0 {
                rem[i] -= 1;
                cur.push(i);
                rec(rem, cur, out);
                cur.pop();
                rem[i] += 1;
            }
        }
    }
    let mut out = Vec::new();
    rec(&mut vec![len; n], &mut Vec::new(), &mut out);
    out
}

/// run one interleaving; returns the observations of all instances
fn run_interleaving(kind: &Kind, scripts: &[Vec<Op>], order: &[usize]) -> Vec<Obs> {
    let n = scripts.len();
    let mut insts: Vec<Option<Box<dyn Inst>>> = (0..n).map(|_| None).collect();
    let mut pos = vec![0usize; n];
    let mut err: Vec<Option<String>> = vec![None; n];
    for &i in order {
        if pos[i] == 0 {
            insts[i] = Some((kind.build)());
        } else if err[i].is_none() {
            let op = &scripts[i][pos[i] - 1];
            if let Err(e) = apply_checked(insts[i].as_mut().unwrap(), op) {
                err[i] = Some(e);
            }
        }
        pos[i] += 1;
    }
    (0..n)
        .map(|i| match &err[i] {
            Some(e) => Err(e.clone()),
            None => insts[i].as_mut().unwrap().observe(),
        })
        .collect()
}

/// a 2000-item weighted set through the std-HashMap entry points: every HashMap has its own random iteration order, so two
/// instances in one thread already exercise different orders (the pruning paths of ProbMinHash3a need large sets)
fn large_hashmap_digest(which: usize, set: u64) -> Result<Vec<u64>, String> {
    // even set numbers: 2000 items (n >> m); odd set numbers: 150 items (n < m, every item survives into the later rounds)
    let nitems: u64 = if set % 2 == 0 { 2000 } else { 150 };
    use fnv::FnvHasher;
    use probminhash::probminhasher::{ProbMinHash2, ProbMinHash3, ProbMinHash3a, ProbMinHash3aSha};
    use std::collections::HashMap;
    let wtab = [0.3, 0.5, 1.0, 1.0, 1.5, 2.0, 3.0, 4.5, 7.0, 11.0, 16.0, 40.0, 250.0];
    let base = 7_000_000 * (set + 1);
    crate::common::guarded_mut(move || {
        // two weight regimes: 13 classes spread over three decades, and 13 classes within one decade (order-dependent
        // pruning is most visible when many items have comparable weights)
        let narrow = set % 4 >= 2;
        let hm: HashMap<u64, f64> = (0..nitems)
            .map(|i| {
                let c = (crate::common::splitmix64(base + i) % 13) as usize;
                (base + i, if narrow { 1. + c as f64 * 0.75 } else { wtab[c] })
            })
            .collect();
        match which {
            0 => {
                let mut h = ProbMinHash3a::<u64, FnvHasher>::new(256, u64::MAX);
                h.hash_weigthed_hashmap(&hm);
                h.get_signature().clone()
            }
            1 => {
                let mut h = ProbMinHash3::<u64, FnvHasher>::new(256, u64::MAX);
                h.hash_weigthed_hashmap(&hm);
                h.get_signature().clone()
            }
            2 => {
                let mut h = ProbMinHash2::<u64, FnvHasher>::new(256, u64::MAX);
                h.hash_weigthed_hashmap::<std::collections::hash_map::RandomState>(&hm);
                h.get_signature().clone()
            }
            _ => {
                let mut h = ProbMinHash3aSha::<u64>::new(256, u64::MAX);
                h.hash_weigthed_hashmap(&hm);
                h.get_signature().clone()
            }
        }
    })
}

const LARGE_NAMES: [&str; 4] = ["ProbMinHash3a(HashMap)", "ProbMinHash3(HashMap)", "ProbMinHash2(HashMap)", "ProbMinHash3aSha(HashMap)"];

fn check_large_hashmaps(ctx: &Ctx, st: &mut Stats) {
    // (an order-dependent pruning rule shows on roughly one 2000-item set in seven: 80 such sets leave no room for luck)
    let nsets = ctx.pick(800u64, 2000);
    for which in 0..4usize {
        let ns = if which == 3 { nsets / 4 } else { nsets };
        let pairs: Vec<(u64, Result<Vec<u64>, String>, Result<Vec<u64>, String>)> = (0..ns).into_par_iter().map(|set| (set, large_hashmap_digest(which, set), large_hashmap_digest(which, set))).collect();
        for (set, a, b) in pairs {
            st.calls += 2;
            if a != b {
                ctx.violation(
                    &format!("instances:{}", LARGE_NAMES[which]),
                    &format!("{} m=256: two instances fed the same weighted set of 2000 (even set numbers) or 150 (odd) items (set #{}) through std HashMaps (independent iteration orders) give different signatures", LARGE_NAMES[which], set),
                    json!({"kind": "large-hashmap", "which": which, "set": set}),
                );
                break;
            }
            if let Ok(w) = &a {
                st.distinct_obs.insert(fnv_words(w));
            }
        }
    }
}

fn base_name(kind: &Kind) -> String {
    kind.name.split(" m=").next().unwrap_or(&kind.name).to_string()
}

struct Stats {
    interleavings: u64,
    cross_kind: u64,
    calls: u64,
    thread_rounds: u64,
    process_lines: u64,
    distinct_obs: std::collections::BTreeSet<u64>,
}

fn check_interleavings(ctx: &Ctx, kinds: &[Kind], st: &mut Stats) {
    // (instances, steps incl. construction)
    let shapes: Vec<(usize, usize)> = ctx.pick(vec![(2, 4), (3, 3)], vec![(2, 5), (3, 4)]);
    for kind in kinds {
        for same_input in [true, false] {
            for &(n, len) in &shapes {
                let scripts: Vec<Vec<Op>> = (0..n).map(|i| script(if same_input { 0 } else { 1000 * i as u64 })[..len - 1].to_vec()).collect();
                let solos: Vec<Obs> = scripts.iter().map(|s| solo(kind, s)).collect();
                for s in solos.iter().flatten() {
                    st.distinct_obs.insert(fnv_words(s));
                }
                // two solo runs of the same script must agree to begin with (two instances, same thread)
                let again: Vec<Obs> = scripts.iter().map(|s| solo(kind, s)).collect();
                if solos != again {
                    ctx.violation(
                        &format!("instances:{}", base_name(kind)),
                        &format!("{}: two instances built with the same parameters and fed the same input in the same thread give different results", kind.name),
                        json!({"kind": "solo", "sketcher": kind.name, "ops": format!("{:?}", scripts[0])}),
                    );
                    continue;
                }
                let mut reported = false;
                for order in interleavings(n, len) {
                    if st.interleavings % 30_011 == 5 {
                        ctx.sample(json!({"sketcher": kind.name, "instances": n, "same_input": same_input, "call_order": order}));
                    }
                    st.interleavings += 1;
                    st.calls += order.len() as u64;
                    let obs = run_interleaving(kind, &scripts, &order);
                    for i in 0..n {
                        if obs[i] != solos[i] && !reported {
                            reported = true;
                            ctx.violation(
                                &format!("interleaving:{}", base_name(kind)),
                                &format!(
                                    "{}: with the calls of {} instances interleaved in the order {:?}, instance {} gives a result different from its solo run (same_input={})",
                                    kind.name, n, order, i, same_input
                                ),
                                json!({"kind": "interleaving", "sketcher": kind.name, "n": n, "len": len, "same_input": same_input, "order": order}),
                            );
                        }
                    }
                }
            }
        }
    }
}

/// two instances of DIFFERENT kinds (same size) with their calls interleaved in one thread: state that the crate keeps
/// outside the instances (a static or thread-local table keyed too coarsely - by m only, by type only) shows as a result
/// that differs from the solo run
fn check_cross_kind(ctx: &Ctx, kinds: &[Kind], st: &mut Stats) {
    let len = 4usize;
    let orders = interleavings(2, len);
    let size_of = |k: &Kind| k.name.split(" m=").nth(1).map(|s| s.split(' ').next().unwrap_or("").to_string()).unwrap_or_default();
    let scripts: Vec<Vec<Op>> = vec![script(0)[..len - 1].to_vec(), script(0)[..len - 1].to_vec()];
    let solos: Vec<Obs> = kinds.iter().map(|k| solo(k, &scripts[0])).collect();
    for (ia, ka) in kinds.iter().enumerate() {
        for (ib, kb) in kinds.iter().enumerate() {
            if ia == ib || size_of(ka) != size_of(kb) {
                continue;
            }
            let mut reported = false;
            for order in &orders {
                st.interleavings += 1;
                st.cross_kind += 1;
                st.calls += order.len() as u64;
                let pair = [ka, kb];
                let mut insts: Vec<Option<Box<dyn Inst>>> = vec![None, None];
                let mut pos = [0usize; 2];
                let mut err: [Option<String>; 2] = [None, None];
                for &i in order {
                    if pos[i] == 0 {
                        insts[i] = Some((pair[i].build)());
                    } else if err[i].is_none() {
                        if let Err(e) = apply_checked(insts[i].as_mut().unwrap(), &scripts[i][pos[i] - 1]) {
                            err[i] = Some(e);
                        }
                    }
                    pos[i] += 1;
                }
                for i in 0..2 {
                    let obs: Obs = match &err[i] {
                        Some(e) => Err(e.clone()),
                        None => insts[i].as_mut().unwrap().observe(),
                    };
                    let want = if i == 0 { &solos[ia] } else { &solos[ib] };
                    if &obs != want && !reported {
                        reported = true;
                        ctx.violation(
                            &format!("cross-kind:{}", base_name(pair[i])),
                            &format!("{}: with the calls of this instance and of a {} interleaved in one thread in the order {:?}, it gives a result different from its solo run", pair[i].name, pair[1 - i].name, order),
                            json!({"kind": "cross-kind", "sketcher": pair[i].name, "other": pair[1 - i].name, "order": order}),
                        );
                    }
                }
            }
        }
    }
}

/// free-running OS threads released by a barrier (sampling of real schedules, not exhaustive)
fn check_threads(ctx: &Ctx, kinds: &[Kind], st: &mut Stats) {
    let rounds = ctx.pick(20usize, 100);
    let ops = script(0);
    for kind in kinds {
        let reference = solo(kind, &ops);
        let mut bad = false;
        for r in 0..rounds {
            let nthreads = 2 + (r % 15);
            let barrier = Arc::new(Barrier::new(nthreads));
            let results: Vec<Obs> = std::thread::scope(|sc| {
                let hs: Vec<_> = (0..nthreads)
                    .map(|_| {
                        let b = barrier.clone();
                        let ops = &ops;
                        sc.spawn(move || {
                            b.wait();
                            solo(kind, ops)
                        })
                    })
                    .collect();
                hs.into_iter().map(|h| h.join().unwrap_or_else(|_| Err("thread panicked".into()))).collect()
            });
            st.thread_rounds += 1;
            st.calls += (nthreads * (ops.len() + 1)) as u64;
            if results.iter().any(|o| *o != reference) && !bad {
                bad = true;
                ctx.violation(
                    &format!("threads:{}", base_name(kind)),
                    &format!("{}: {} instances running concurrently in different threads on the same input do not all give the single-thread result", kind.name, nthreads),
                    json!({"kind": "threads", "sketcher": kind.name, "nthreads": nthreads}),
                );
            }
        }
    }
}

/// Slice entry points of the densified sketchers on a long slice whose bin minimum is a *tie* between two different items
/// (f32 values have 24 bits: ties exist in any large stream, and the item processed last owns the bin): the result must be
/// the one of the sequential item-wise run, whatever pool the call runs in.  Repeated under pools of 1, 2, 4 and 16 workers
/// (sampling of real schedules, not exhaustive).
fn check_tied_slices(ctx: &Ctx, st: &mut Stats) {
    use crate::dens::Dens;
    use probminhash::densminhash::{OptDensMinHash, RevOptDensMinHash};
    fn one<S: Dens>(ctx: &Ctx, tag: &str, st: &mut Stats) {
        let n: u64 = 300_000;
        let base = 77_000_000u64;
        // value of every candidate item on a one-bin sketcher
        let mut rs: Vec<(u64, u64)> = (base..base + n)
            .into_par_iter()
            .map(|x| {
                let mut s = S::new(1);
                s.sketch(&x);
                (s.state().hs[0], x)
            })
            .collect();
        rs.sort();
        // the smallest value shared by two items; keep the items from there on: the tie is the minimum of the stream
        let Some(i) = (0..rs.len() - 1).find(|i| rs[*i].0 == rs[*i + 1].0) else {
            ctx.note(format!("{}: no tie among {} items", tag, n));
            return;
        };
        let (t1, t2) = (rs[i].1, rs[i + 1].1);
        let mut items: Vec<u64> = rs[i + 2..].iter().filter(|r| r.0 > rs[i].0).map(|r| r.1).collect();
        items.sort();
        let k = items.len();
        items.insert(k / 3, t1);
        items.insert(2 * k / 3, t2);
        let reference = {
            let mut s = S::new(1);
            for x in &items {
                s.sketch(x);
            }
            s.end_sketch();
            s.views().v64
        };
        let mut distinct = std::collections::BTreeSet::new();
        for workers in [1usize, 2, 4, 16] {
            let pool = rayon::ThreadPoolBuilder::new().num_threads(workers).build().unwrap();
            for _ in 0..(if workers == 1 { 2 } else { 12 }) {
                let r = pool.install(|| {
                    crate::common::guarded_mut(|| {
                        let mut s = S::new(1);
                        s.sketch_slice(&items).map(|_| s.views().v64)
                    })
                });
                st.thread_rounds += 1;
                match r {
                    Ok(Ok(v)) => {
                        distinct.insert(v);
                    }
                    other => {
                        ctx.violation(&format!("tied-slice:{}", tag), &format!("{}: sketch_slice on {} items failed: {:?}", S::name(), items.len(), other.map(|x| x.map(|_| ()))), json!({"kind": "tied-slice", "sketcher": tag}));
                        return;
                    }
                }
            }
        }
        if distinct.len() != 1 || !distinct.contains(&reference) {
            ctx.violation(
                &format!("tied-slice:{}", tag),
                &format!(
                    "{} m=1: sketch_slice on a slice of {} items whose smallest value is shared by items {} and {} gave {} different u64 sketches over 38 runs under pools of 1, 2, 4 and 16 workers (sequential item-wise result {:x?}, observed {:x?})",
                    S::name(), items.len(), t1, t2, distinct.len(), reference, distinct
                ),
                json!({"kind": "tied-slice", "sketcher": tag}),
            );
        }
    }
    one::<OptDensMinHash<f32, u64, fnv::FnvHasher>>(ctx, "opt32", st);
    one::<RevOptDensMinHash<f32, u64, fnv::FnvHasher>>(ctx, "rev32", st);
}

/// the log level is part of the environment: `log` macros evaluate their arguments only when their level is enabled, so a
/// sketch must be the same with a trace-level logger installed as without one (every kind, the solo script; the large
/// HashMap sets)
fn check_logging(ctx: &Ctx, kinds: &[Kind], st: &mut Stats) {
    let ops = script(0);
    for kind in kinds {
        let reference = solo(kind, &ops);
        // std HashMap entry points iterate in a per-instance random order: what a logger-only side effect does to them
        // depends on that order, so those kinds are repeated
        let reps = if kind.name.starts_with("ProbMinHash") { 16 } else { 1 };
        let mut traced = reference.clone();
        for _ in 0..reps {
            traced = crate::common::with_trace_logging(|| solo(kind, &ops));
            st.calls += ops.len() as u64 + 1;
            if traced != reference {
                break;
            }
        }
        st.calls += ops.len() as u64 + 1;
        if traced != reference {
            ctx.violation(
                &format!("logging:{}", base_name(kind)),
                &format!("{}: the same script gives a different result (or fails) when a trace-level logger is installed: {:?} vs {:?}", kind.name, traced.as_ref().map(|v| &v[..v.len().min(4)]), reference.as_ref().map(|v| &v[..v.len().min(4)])),
                json!({"kind": "logging", "sketcher": kind.name}),
            );
        }
    }
    for which in 0..4usize {
        let a = large_hashmap_digest(which, 0);
        let mut b = a.clone();
        for _ in 0..4 {
            b = crate::common::with_trace_logging(|| large_hashmap_digest(which, 0));
            if a != b {
                break;
            }
        }
        if a != b {
            ctx.violation(
                &format!("logging:{}", LARGE_NAMES[which]),
                &format!("{}: a 2000-item weighted set gives a different signature when a trace-level logger is installed", LARGE_NAMES[which]),
                json!({"kind": "logging", "sketcher": LARGE_NAMES[which]}),
            );
        }
    }
}

pub fn child(_args: &[String]) -> i32 {
    let kinds = catalogue(&[2, 16], false);
    let ops = script(0);
    for which in 0..4usize {
        for set in 0..6u64 {
            match large_hashmap_digest(which, set) {
                Ok(w) => println!("DIGEST|{} 2000 items set#{}|{:016x}|{}", LARGE_NAMES[which], set, fnv_words(&w), w.len()),
                Err(e) => println!("DIGEST|{} 2000 items set#{}|ERR|{}", LARGE_NAMES[which], set, e.replace('\n', " ")),
            }
        }
    }
    for k in &kinds {
        match solo(k, &ops) {
            Ok(w) => println!("DIGEST|{}|{:016x}|{}", k.name, fnv_words(&w), w.len()),
            Err(e) => println!("DIGEST|{}|ERR|{}", k.name, e.replace('\n', " ")),
        }
    }
    println!("DONE");
    0
}

fn check_processes(ctx: &Ctx, st: &mut Stats) {
    let n = ctx.pick(8usize, 32);
    let outs: Vec<_> = std::thread::scope(|sc| {
        let hs: Vec<_> = (0..n).map(|_| sc.spawn(|| run_self(&["--child".into(), "c12".into()], Duration::from_secs(120), &[]))).collect();
        hs.into_iter().map(|h| h.join().unwrap()).collect()
    });
    let mut per_kind: BTreeMap<String, std::collections::BTreeSet<String>> = BTreeMap::new();
    for o in &outs {
        if !o.stdout.contains("DONE") {
            ctx.violation("processes:crash", &format!("a child process did not complete: exit {:?} signal {:?}", o.exit_code, o.signal), json!({"kind": "processes"}));
            continue;
        }
        for l in o.stdout.lines().filter(|l| l.starts_with("DIGEST|")) {
            st.process_lines += 1;
            let parts: Vec<&str> = l.splitn(4, '|').collect();
            per_kind.entry(parts[1].to_string()).or_default().insert(parts[2..].join("|"));
        }
    }
    for (k, set) in per_kind {
        if set.len() > 1 {
            let b = k.split(" m=").next().unwrap_or(&k).to_string();
            ctx.violation(
                &format!("processes:{}", b),
                &format!("{}: {} process launches produced {} different results for the same parameters and input", k, n, set.len()),
                json!({"kind": "processes", "sketcher": k}),
            );
        }
    }
}

pub fn run(ctx: &Ctx) -> i32 {
    crate::common::install_hang_watchdog(ctx, "exploration", 20);
    let kinds = catalogue(&ctx.pick(vec![2usize, 16], vec![1, 2, 5, 16, 64]), false);
    let mut st = Stats { interleavings: 0, cross_kind: 0, calls: 0, thread_rounds: 0, process_lines: 0, distinct_obs: Default::default() };
    check_interleavings(ctx, &kinds, &mut st);
    check_cross_kind(ctx, &kinds, &mut st);
    check_large_hashmaps(ctx, &mut st);
    check_threads(ctx, &kinds, &mut st);
    check_tied_slices(ctx, &mut st);
    check_logging(ctx, &kinds, &mut st);
    check_processes(ctx, &mut st);
    println!(
        "C12 sketcher kinds={} interleavings={} calls={} thread rounds={} process digests={} distinct results={}",
        kinds.len(),
        st.interleavings,
        st.calls,
        st.thread_rounds,
        st.process_lines,
        st.distinct_obs.len()
    );
    let coverage = json!({
        "evaluations": st.interleavings + st.thread_rounds + st.process_lines,
        "distinct_nontrivial": st.distinct_obs.len(),
        "rule": "for every sketcher type x parameterisation of the catalogue (all 9 sketcher types, several sizes/register types/entry points): ALL interleavings at call granularity of the call sequences (construction included) of 2 instances x 4-5 steps and 3 instances x 3-4 steps, same input and different inputs, each instance compared with its solo run; then 800 (2000) weighted sets of 2000 items through the std-HashMap entry points of the four ProbMinHash variants on two instances each (independent iteration orders; also part of the process digests); then 20 (100) rounds of 2..16 free-running threads (sampling, not exhaustive); then the slice entry point of both f32 densified sketchers on a 300000-item slice whose minimum is a tie between two items, 38 runs under rayon pools of 1, 2, 4, 16 workers against the sequential item-wise result (sampling); then 8 (32) process launches whose digests must agree bit for bit (HashMap entry points included); distinct = distinct solo results",
        "samples": [
            {"interleaving": {"sketcher": "ProbOrdMinHash2 m=16 l=2", "n": 2, "order": [0, 1, 1, 0, 0, 1, 1, 0]}},
            {"script": format!("{:?}", script(0))},
            {"processes": "mc --child c12 launched 8 times; one DIGEST line per sketcher kind"}
        ],
        "exhaustive": false,
        "exhaustive_scope": "interleavings at call granularity are enumerated completely; threads are sampled; there is no scheduling point inside a sketch call for a controlled scheduler to use (the crate has no locks/atomics)",
        "sketcher_kinds": kinds.len(),
        "interleavings": st.interleavings,
        "cross_kind_interleavings": st.cross_kind,
        "cross_kind_rule": "every ordered pair of DIFFERENT kinds of the same size (incl. SetSketchers that differ only in the rate a): all 70 interleavings of their two 4-step call sequences in one thread, each instance compared with its solo run",
        "calls": st.calls,
        "thread_rounds": st.thread_rounds,
        "process_digest_lines": st.process_lines,
    });
    ctx.finish(
        "exploration",
        coverage,
        vec![
            "shared state introduced through unsafe code and raced inside a call would need a race detector (different technique)".into(),
            "process launches sample OS entropy and address-space layout (8 or 32 launches)".into(),
        ],
    )
}

pub fn replay(_ctx: &Ctx, case: &Value) -> Result<(bool, String), String> {
    if case["kind"].as_str() == Some("logging") {
        return Err("re-derived by running the check itself".into());
    }
    if case["kind"].as_str() == Some("tied-slice") {
        return Err("re-derived by running the check itself (schedule sampling)".into());
    }
    let name = case["sketcher"].as_str().ok_or("sketcher")?.to_string();
    let kinds = catalogue(&[1, 2, 5, 16, 64], false);
    let kind = kinds.iter().find(|k| k.name == name).ok_or("unknown sketcher kind")?;
    match case["kind"].as_str() {
        Some("large-hashmap") => {
            let which = case["which"].as_u64().ok_or("which")? as usize;
            let set = case["set"].as_u64().ok_or("set")?;
            let a = large_hashmap_digest(which, set);
            let b = large_hashmap_digest(which, set);
            return Ok((a != b, format!("two instances agree: {}", a == b)));
        }
        Some("solo") | Some("threads") | Some("processes") => {
            let a = solo(kind, &script(0));
            let b = solo(kind, &script(0));
            Ok((a != b, format!("two solo runs equal: {}", a == b)))
        }
        Some("interleaving") => {
            let n = case["n"].as_u64().ok_or("n")? as usize;
            let len = case["len"].as_u64().ok_or("len")? as usize;
            let same = case["same_input"].as_bool().ok_or("same_input")?;
            let order: Vec<usize> = case["order"].as_array().ok_or("order")?.iter().map(|v| v.as_u64().unwrap_or(0) as usize).collect();
            let scripts: Vec<Vec<Op>> = (0..n).map(|i| script(if same { 0 } else { 1000 * i as u64 })[..len - 1].to_vec()).collect();
            let solos: Vec<Obs> = scripts.iter().map(|s| solo(kind, s)).collect();
            let obs = run_interleaving(kind, &scripts, &order);
            Ok((obs != solos, format!("interleaved results equal solo results: {}", obs == solos)))
        }
        _ => Err("kind".into()),
    }
}
