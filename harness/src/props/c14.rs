//! C14 — similarity estimators are total, symmetric and exact on their inputs.
//! Engine C: all pairs of sketches up to length 5 over a 3-letter alphabet for every counting estimator and element
//! type; all ordered pairs of register vectors (and real sketches of a set family) for the MLE.

use crate::common::{guarded, guarded_mut, silence_stderr, Ctx};
use fnv::FnvHasher;
use probminhash::jaccard;
use probminhash::setsketcher::{MleJaccard, SetSketchParams, SetSketcher};
use probminhash::superminhasher::{self, SuperMinHash};
use probminhash::superminhasher2::{self, SuperMinHash2};
use rayon::prelude::*;
use serde_json::{json, Value};
use std::fmt::Debug;
use std::hash::BuildHasherDefault;
use std::panic::RefUnwindSafe;

/// all vectors of length len over the alphabet
fn all_vecs<T: Copy>(alpha: &[T], len: usize) -> Vec<Vec<T>> {
    let mut out: Vec<Vec<T>> = vec![vec![]];
    for _ in 0..len {
        let mut next = Vec::with_capacity(out.len() * alpha.len());
        for v in &out {
            for a in alpha {
                let mut w = v.clone();
                w.push(*a);
                next.push(w);
            }
        }
        out = next;
    }
    out
}

#[derive(Debug, Clone, PartialEq)]
enum Res {
    Val(f64),
    Err,
    Panic,
}

struct Counting<'a, T> {
    name: &'static str,
    /// expected value from (equal count, length)
    expect: fn(usize, usize) -> f64,
    f: Box<dyn Fn(&Vec<T>, &Vec<T>) -> Res + Sync + 'a>,
}

#[derive(Default)]
struct CStats {
    pairs: u64,
    mismatch_pairs: u64,
    distinct_values: std::collections::BTreeSet<u64>,
}

fn exp_f64(c: usize, l: usize) -> f64 {
    c as f64 / l as f64
}
fn exp_f32(c: usize, l: usize) -> f64 {
    (c as f32 / l as f32) as f64
}

fn check_counting<T: Copy + PartialEq + Debug + Sync + Send + RefUnwindSafe>(ctx: &Ctx, tname: &str, alpha: &[T], fns: &[Counting<T>], maxlen: usize, st: &mut CStats) {
    for est in fns {
        let mut first_bad: Option<(String, Value)> = None;
        for len in 1..=maxlen {
            let vs = all_vecs(alpha, len);
            let results: Vec<(u64, Option<String>, Vec<u64>)> = vs
                .par_iter()
                .map(|a| {
                    let mut n = 0u64;
                    let mut bad = None;
                    let mut vals = Vec::new();
                    for b in &vs {
                        n += 1;
                        let count = a.iter().zip(b.iter()).filter(|(x, y)| x == y).count();
                        let want = (est.expect)(count, len);
                        let got = (est.f)(a, b);
                        let rev = (est.f)(b, a);
                        if let Res::Val(v) = got {
                            vals.push(v.to_bits());
                        }
                        let problem = if got != Res::Val(want) {
                            Some(format!("returns {:?}, expected {} = {}/{}", got, want, count, len))
                        } else if rev != got {
                            Some(format!("not symmetric: {:?} vs {:?}", got, rev))
                        } else if !(0. ..=1.).contains(&want) {
                            Some("outside [0,1]".to_string())
                        } else if a == b && got != Res::Val(1.0) {
                            Some(format!("identical sketches give {:?}", got))
                        } else {
                            None
                        };
                        if let Some(p) = problem {
                            if bad.is_none() {
                                bad = Some(format!("{}<{}>({:?}, {:?}) {}", est.name, tname, a, b, p));
                            }
                        }
                    }
                    (n, bad, vals)
                })
                .collect();
            for (n, bad, vals) in results {
                st.pairs += n;
                for v in vals {
                    st.distinct_values.insert(v);
                }
                if let Some(b) = bad {
                    if first_bad.is_none() {
                        first_bad = Some((b, json!({"kind": "counting", "fn": est.name, "type": tname, "len": len})));
                    }
                }
            }
        }
        if let Some((w, case)) = first_bad {
            ctx.violation(&format!("counting:{}:{}", est.name, tname), &w, case);
        }
        // length mismatch: Err or panic, never a value
        for la in 0..=maxlen {
            for lb in 0..=maxlen {
                if la == lb {
                    continue;
                }
                for a in all_vecs(alpha, la).iter().take(9) {
                    for b in all_vecs(alpha, lb).iter().take(9) {
                        st.mismatch_pairs += 1;
                        if let Res::Val(v) = (est.f)(a, b) {
                            ctx.violation(
                                &format!("length-mismatch:{}:{}", est.name, tname),
                                &format!("{}<{}> on sketches of lengths {} and {} returns {} instead of reporting the mismatch", est.name, tname, la, lb, v),
                                json!({"kind": "mismatch", "fn": est.name, "type": tname, "la": la, "lb": lb}),
                            );
                        }
                    }
                }
            }
        }
    }
}

fn wrap<T, R: Into<f64>, E>(f: impl Fn(&Vec<T>, &Vec<T>) -> Result<R, E> + Sync + RefUnwindSafe) -> impl Fn(&Vec<T>, &Vec<T>) -> Res + Sync
where
    T: RefUnwindSafe,
{
    move |a, b| match guarded(|| f(a, b)) {
        Ok(Ok(v)) => Res::Val(v.into()),
        Ok(Err(_)) => Res::Err,
        Err(_) => Res::Panic,
    }
}

fn generic_fns<'a, T: PartialEq + Debug + num::Zero + RefUnwindSafe + Sync + Send + 'a>() -> Vec<Counting<'a, T>> {
    vec![
        Counting {
            name: "jaccard::compute_probminhash_jaccard",
            expect: exp_f64,
            f: Box::new(wrap(|a: &Vec<T>, b: &Vec<T>| Ok::<f64, ()>(jaccard::compute_probminhash_jaccard(a, b)))),
        },
        Counting {
            name: "jaccard::get_jaccard_index_estimate",
            expect: exp_f64,
            f: Box::new(wrap(|a: &Vec<T>, b: &Vec<T>| jaccard::get_jaccard_index_estimate(a, b))),
        },
        Counting {
            name: "superminhasher2::compute_superminhash_jaccard",
            expect: exp_f32,
            f: Box::new(wrap(|a: &Vec<T>, b: &Vec<T>| superminhasher2::compute_superminhash_jaccard(a, b))),
        },
        Counting {
            name: "superminhasher2::get_jaccard_index_estimate",
            expect: exp_f32,
            f: Box::new(wrap(|a: &Vec<T>, b: &Vec<T>| superminhasher2::get_jaccard_index_estimate(a, b))),
        },
    ]
}

fn float_fns<'a, F: num::Float + Debug + Into<f64> + RefUnwindSafe + Sync + Send + 'a>(exp: fn(usize, usize) -> f64) -> Vec<Counting<'a, F>> {
    vec![
        Counting {
            name: "superminhasher::compute_superminhash_jaccard",
            expect: exp,
            f: Box::new(wrap(|a: &Vec<F>, b: &Vec<F>| superminhasher::compute_superminhash_jaccard(a, b))),
        },
        Counting {
            name: "superminhasher::get_jaccard_index_estimate",
            expect: exp,
            f: Box::new(wrap(|a: &Vec<F>, b: &Vec<F>| superminhasher::get_jaccard_index_estimate(a, b))),
        },
    ]
}

/// the slice-taking estimators on *aliased* arguments: every pair of sub-slices (i..j, k..l) of one buffer.  Equal lengths:
/// exact count/length (and 1 only where the elements agree); different lengths: the mismatch is reported even though both
/// slices may start at the same address
fn check_aliased<T: Copy + PartialEq + Debug + RefUnwindSafe>(ctx: &Ctx, tname: &str, alpha: &[T], fns: &[(&'static str, fn(usize, usize) -> f64, Box<dyn Fn(&[T], &[T]) -> Res + '_>)], maxlen: usize, st: &mut CStats) {
    for (name, expect, f) in fns {
        let mut reported = false;
        for buf in all_vecs(alpha, maxlen) {
            for i in 0..=maxlen {
                for j in i..=maxlen {
                    for k in 0..=maxlen {
                        for l in k..=maxlen {
                            let (a, b) = (&buf[i..j], &buf[k..l]);
                            if a.is_empty() && b.is_empty() {
                                continue;
                            }
                            let got = f(a, b);
                            let problem = if a.len() != b.len() {
                                st.mismatch_pairs += 1;
                                match got {
                                    Res::Val(v) => Some(format!("lengths {} and {} (sub-slices {}..{} and {}..{} of one buffer): returns {} instead of reporting the mismatch", a.len(), b.len(), i, j, k, l, v)),
                                    _ => None,
                                }
                            } else {
                                st.pairs += 1;
                                let count = a.iter().zip(b.iter()).filter(|(x, y)| x == y).count();
                                let want = expect(count, a.len());
                                if got != Res::Val(want) {
                                    Some(format!("sub-slices {}..{} and {}..{} of {:?}: returns {:?}, expected {}/{}", i, j, k, l, buf, got, count, a.len()))
                                } else {
                                    None
                                }
                            };
                            if let Some(pb) = problem {
                                if !reported {
                                    reported = true;
                                    ctx.violation(
                                        &format!("aliased:{}:{}", name, tname),
                                        &format!("{}<{}> on aliased arguments: {}", name, tname, pb),
                                        json!({"kind": "aliased", "fn": name, "type": tname}),
                                    );
                                }
                            }
                        }
                    }
                }
            }
        }
    }
}

fn res_of<R: Into<f64>, E>(r: Result<Result<R, E>, String>) -> Res {
    match r {
        Ok(Ok(v)) => Res::Val(v.into()),
        Ok(Err(_)) => Res::Err,
        Err(_) => Res::Panic,
    }
}

fn aliased_generic<T: Copy + PartialEq + Debug + RefUnwindSafe + Sync + Send>(ctx: &Ctx, tname: &str, alpha: &[T], st: &mut CStats) {
    let fns: Vec<(&'static str, fn(usize, usize) -> f64, Box<dyn Fn(&[T], &[T]) -> Res>)> = vec![
        ("jaccard::compute_probminhash_jaccard", exp_f64, Box::new(|a: &[T], b: &[T]| res_of(guarded(|| Ok::<f64, ()>(jaccard::compute_probminhash_jaccard(a, b)))))),
        ("jaccard::get_jaccard_index_estimate", exp_f64, Box::new(|a: &[T], b: &[T]| res_of(guarded(|| jaccard::get_jaccard_index_estimate(a, b))))),
    ];
    check_aliased(ctx, tname, alpha, &fns, 4, st);
}

fn aliased_float<F: num::Float + Debug + Into<f64> + RefUnwindSafe + Sync + Send>(ctx: &Ctx, tname: &str, alpha: &[F], exp: fn(usize, usize) -> f64, st: &mut CStats) {
    let fns: Vec<(&'static str, fn(usize, usize) -> f64, Box<dyn Fn(&[F], &[F]) -> Res>)> = vec![
        ("superminhasher::compute_superminhash_jaccard", exp, Box::new(|a: &[F], b: &[F]| res_of(guarded(|| superminhasher::compute_superminhash_jaccard(a, b))))),
        ("superminhasher::get_jaccard_index_estimate", exp, Box::new(|a: &[F], b: &[F]| res_of(guarded(|| superminhasher::get_jaccard_index_estimate(a, b))))),
    ];
    check_aliased(ctx, tname, alpha, &fns, 4, st);
}

/// SuperMinHash::get_jaccard_index_estimate against sub-slices of the sketcher's own sketch
fn aliased_method(ctx: &Ctx, st: &mut CStats) {
    for m in 1..=5usize {
        let mut sk = SuperMinHash::<f64, u64, FnvHasher>::new(m, BuildHasherDefault::<FnvHasher>::default());
        for i in 0..3u64 {
            sk.sketch(&i).unwrap();
        }
        for i in 0..=m {
            for j in i..=m {
                let own = sk.get_hsketch();
                let r = guarded(|| sk.get_jaccard_index_estimate(&own[i..j]));
                let whole = i == 0 && j == m;
                let ok = match &r {
                    Ok(Ok(v)) => whole && *v == 1.0,
                    Ok(Err(_)) | Err(_) => !whole,
                };
                if whole {
                    st.pairs += 1;
                } else {
                    st.mismatch_pairs += 1;
                }
                if !ok {
                    ctx.violation(
                        "aliased:SuperMinHash::get_jaccard_index_estimate",
                        &format!("SuperMinHash::get_jaccard_index_estimate(m={}) against the sub-slice {}..{} of its own sketch: {:?}", m, i, j, r.map(|x| x.map_err(|e| e.to_string()))),
                        json!({"kind": "aliased", "fn": "method", "m": m}),
                    );
                    return;
                }
            }
        }
    }
}

/// long sketches (a counter narrower than usize, or a count taken through a float too early, shows from 2^16 / 2^24 on):
/// lengths 65535, 65536, 65537 and 2^24+3, equal counts 0, 1, a third, all but one, all
fn check_long<T: Copy + PartialEq + Debug + Sync + Send + RefUnwindSafe>(ctx: &Ctx, tname: &str, x: T, y: T, z: T, fns: &[Counting<T>], st: &mut CStats) {
    for &len in &[65_535usize, 65_536, 65_537, (1 << 24) + 3] {
        let a: Vec<T> = (0..len).map(|i| if i % 2 == 0 { x } else { y }).collect();
        for &c in &[0usize, 1, len / 3, len - 1, len] {
            // b agrees with a on the first c positions
            let b: Vec<T> = (0..len).map(|i| if i < c { a[i] } else { z }).collect();
            for est in fns {
                let want = (est.expect)(c, len);
                let got = (est.f)(&a, &b);
                let rev = (est.f)(&b, &a);
                st.pairs += 2;
                // functions that answer in f32 cannot be exact beyond 2^24 positions: any correctly rounded route to
                // count/length is accepted there (within one f32 unit in the last place of the exact ratio)
                let f32_fn = (est.expect)(1, 3) == exp_f32(1, 3);
                let close = match (&got, f32_fn) {
                    (Res::Val(v), true) => (v - c as f64 / len as f64).abs() <= 6.0e-8,
                    _ => false,
                };
                if (got != Res::Val(want) && !close) || rev != got {
                    ctx.violation(
                        &format!("counting-long:{}:{}", est.name, tname),
                        &format!("{}<{}> on sketches of length {} with {} equal positions returns {:?} / {:?} (arguments swapped), expected {}", est.name, tname, len, c, got, rev, want),
                        json!({"kind": "counting-long", "fn": est.name, "type": tname, "len": len, "equal": c}),
                    );
                    return;
                }
            }
        }
    }
}

/// the estimator methods of the sketcher structs, against the sketch they hold
fn check_methods(ctx: &Ctx, st: &mut CStats) {
    for m in 1..=5usize {
        // SuperMinHash f64
        let r = guarded_mut(|| {
            let mut problems = Vec::new();
            let mut sk = SuperMinHash::<f64, u64, FnvHasher>::new(m, BuildHasherDefault::<FnvHasher>::default());
            for i in 0..3u64 {
                sk.sketch(&i).unwrap();
            }
            let own = sk.get_hsketch().clone();
            // other sketches: every position either equal to own or different
            for mask in 0..(1u32 << m) {
                let other: Vec<f64> = (0..m).map(|i| if mask & (1 << i) != 0 { own[i] } else { own[i] + 1000.5 }).collect();
                let want = mask.count_ones() as f64 / m as f64;
                match sk.get_jaccard_index_estimate(&other) {
                    Ok(v) if v == want => {}
                    o => problems.push(format!("SuperMinHash::get_jaccard_index_estimate m={} mask={:b}: {:?}, expected {}", m, mask, o.map_err(|e| e.to_string()), want)),
                }
            }
            for lb in 0..=6usize {
                if lb != m && sk.get_jaccard_index_estimate(&vec![0.5; lb]).is_ok() {
                    problems.push(format!("SuperMinHash::get_jaccard_index_estimate accepts a sketch of length {} against its own of length {}", lb, m));
                }
            }
            // sketchers that hold nothing yet (fresh, and after reinit): the method still compares position by position
            for stage in ["fresh", "after reinit"] {
                let mut e1 = SuperMinHash::<f64, u64, FnvHasher>::new(m, BuildHasherDefault::<FnvHasher>::default());
                let mut e2 = SuperMinHash2::<u64, u64, FnvHasher>::new(m, BuildHasherDefault::<FnvHasher>::default());
                if stage == "after reinit" {
                    e1.sketch(&5u64).unwrap();
                    e1.reinit();
                    e2.sketch(&5u64).unwrap();
                    e2.reinit();
                }
                let o1 = e1.get_hsketch().clone();
                let o2 = e2.get_hsketch().clone();
                for mask in 0..(1u32 << m) {
                    let want = mask.count_ones() as f64 / m as f64;
                    let other1: Vec<f64> = (0..m).map(|i| if mask & (1 << i) != 0 { o1[i] } else { 0.25 }).collect();
                    match e1.get_jaccard_index_estimate(&other1) {
                        Ok(v) if v == want => {}
                        o => problems.push(format!("SuperMinHash::get_jaccard_index_estimate on a sketcher that holds nothing ({}) m={} mask={:b}: {:?}, expected {}", stage, m, mask, o.map_err(|e| e.to_string()), want)),
                    }
                    let other2: Vec<u64> = (0..m).map(|i| if mask & (1 << i) != 0 { o2[i] } else { 77 }).collect();
                    match e2.get_jaccard_index_estimate(&other2) {
                        Ok(v) if v == want => {}
                        o => problems.push(format!("SuperMinHash2::get_jaccard_index_estimate on a sketcher that holds nothing ({}) m={} mask={:b}: {:?}, expected {}", stage, m, mask, o, want)),
                    }
                }
            }
            let mut sk2 = SuperMinHash2::<u64, u64, FnvHasher>::new(m, BuildHasherDefault::<FnvHasher>::default());
            for i in 0..3u64 {
                sk2.sketch(&i).unwrap();
            }
            let own2 = sk2.get_hsketch().clone();
            for mask in 0..(1u32 << m) {
                let other: Vec<u64> = (0..m).map(|i| if mask & (1 << i) != 0 { own2[i] } else { own2[i] ^ 0x5555 }).collect();
                let want = mask.count_ones() as f64 / m as f64;
                match sk2.get_jaccard_index_estimate(&other) {
                    Ok(v) if v == want => {}
                    o => problems.push(format!("SuperMinHash2::get_jaccard_index_estimate m={} mask={:b}: {:?}, expected {}", m, mask, o, want)),
                }
            }
            for lb in 0..=6usize {
                if lb != m && sk2.get_jaccard_index_estimate(&vec![1u64; lb]).is_ok() {
                    problems.push(format!("SuperMinHash2::get_jaccard_index_estimate accepts a sketch of length {} against its own of length {}", lb, m));
                }
            }
            problems
        });
        st.pairs += 2 * (1u64 << m);
        st.mismatch_pairs += 12;
        match r {
            Ok(problems) => {
                for p in problems.into_iter().take(1) {
                    ctx.violation("counting:methods", &p, json!({"kind": "methods", "m": m}));
                }
            }
            Err(p) => ctx.violation("counting:methods:panic", &p, json!({"kind": "methods", "m": m})),
        }
    }
}

// ------------------------------------------------------------------------------------------------
// MLE

#[derive(Debug, Clone)]
struct MleOut {
    /// Some(j) / None / panic message
    res: Result<Option<f64>, String>,
    jac: f64,
    b_sup: f64,
}

fn run_mle<I>(b: f64, a: f64, s1: &[I], s2: &[I]) -> MleOut
where
    I: num::Integer + num::Bounded + num::ToPrimitive + num::FromPrimitive + Copy + Clone + Send + Sync + RefUnwindSafe,
{
    let m = s1.len() as u64;
    let mle = MleJaccard::new(b, m, a);
    let (c1, c2) = match guarded(|| (mle.get_cardinal_estimate(s1), mle.get_cardinal_estimate(s2))) {
        Ok(c) => c,
        Err(p) => return MleOut { res: Err(format!("get_cardinal_estimate aborts: {}", p)), jac: f64::NAN, b_sup: f64::NAN },
    };
    let aux = c1 / c2;
    let b_sup = aux.min(1. / aux);
    let dequal = s1.iter().zip(s2.iter()).filter(|(x, y)| x == y).count();
    let jac = dequal as f64 / m as f64;
    let res = guarded(|| mle.get_mle(s1, s2));
    MleOut { res, jac, b_sup }
}

/// None if fine, else (key, description)
fn judge_mle(o: &MleOut) -> Option<(String, String)> {
    match &o.res {
        Err(p) => {
            let key = if o.jac > o.b_sup { "mle-panic:collision-fraction-above-bracket" } else { "mle-panic:other" };
            Some((key.to_string(), format!("get_mle aborts (collision fraction {} , search bracket [0,{}]): {}", o.jac, o.b_sup, &p[..p.len().min(200)])))
        }
        Ok(None) => Some(("mle-none".to_string(), format!("get_mle returns None (collision fraction {}, bracket [0,{}])", o.jac, o.b_sup))),
        Ok(Some(j)) => {
            if !j.is_finite() {
                Some(("mle-not-finite".to_string(), format!("get_mle returns {}", j)))
            } else if !(0. ..=1.).contains(j) {
                Some(("mle-out-of-range".to_string(), format!("get_mle returns {} outside [0,1]", j)))
            } else {
                None
            }
        }
    }
}

fn mle_register_pairs(ctx: &Ctx, st: &mut MStats) {
    let bs = [1.001f64, 1.2, 2.0];
    let maxm = ctx.pick(3usize, 4);
    // second alphabet: empty register, one item, ~1e3 and ~1e6 items (registers r with b^r in {1, b, 1e3, 1e6});
    // cardinality ratios below ~1e-12 (sets of more than 1e15 items against a singleton) are not explored
    for (ai, m) in (0..2usize).flat_map(|ai| (1..=maxm).map(move |m| (ai, m))) {
        for &b in &bs {
        let alpha: [u16; 4] = if ai == 0 {
            [100, 101, 102, 110]
        } else {
            let r3 = (1e3f64.ln() / b.ln()).round() as u16;
            [0, 1, r3, 2 * r3]
        };
        let vs = all_vecs(&alpha, m);
        {
            let outs: Vec<(usize, usize, MleOut)> = (0..vs.len() * vs.len())
                .into_par_iter()
                .map(|idx| {
                    let (i, j) = (idx / vs.len(), idx % vs.len());
                    (i, j, run_mle::<u16>(b, 20., &vs[i], &vs[j]))
                })
                .collect();
            let mut seen_keys = std::collections::BTreeSet::new();
            for (i, j, o) in outs {
                st.calls += 1;
                if let Ok(Some(v)) = &o.res {
                    st.distinct.insert(v.to_bits());
                }
                if let Some((key, what)) = judge_mle(&o) {
                    st.failing += 1;
                    if std::env::var("VERIF_DEBUG").is_ok() {
                        println!("DEBUG b={} {:?} vs {:?}: {} {}", b, vs[i], vs[j], key, what);
                    }
                    if seen_keys.insert(key.clone()) {
                        ctx.violation(
                            &key,
                            &format!("b={} m={} registers {:?} vs {:?}: {}", b, m, vs[i], vs[j], what),
                            json!({"kind": "mle-registers", "b": b, "s1": vs[i], "s2": vs[j]}),
                        );
                    } else {
                        ctx.violation(&key, &what, json!({}));
                    }
                }
            }
        }
        }
    }
}

/// the MLE and the cardinality estimate reduce over the registers with rayon: inside pools of 1..64 workers (more workers
/// than registers, fewer, a prime number of them) they must stay total and agree with the value computed outside any
/// explicit pool up to the rounding of a re-associated sum
fn mle_in_pools(ctx: &Ctx, st: &mut MStats) {
    let pools: Vec<(usize, rayon::ThreadPool)> = [1usize, 2, 3, 4, 7, 64].iter().map(|n| (*n, rayon::ThreadPoolBuilder::new().num_threads(*n).build().unwrap())).collect();
    let ms: Vec<usize> = ctx.pick(vec![1, 2, 3, 5, 8, 63, 65, 130], vec![1, 2, 3, 4, 5, 6, 7, 8, 9, 13, 63, 64, 65, 127, 130, 1000]);
    for &b in &[1.001f64, 1.2] {
        let r3 = (1e3f64.ln() / b.ln()).round() as u16;
        for &m in &ms {
            // identical, disjoint, nested-looking and half-equal register vectors
            let base: Vec<u16> = (0..m).map(|i| r3 + (i as u16 * 7) % 23).collect();
            let shifted: Vec<u16> = base.iter().map(|x| x + 29).collect();
            let half: Vec<u16> = base.iter().enumerate().map(|(i, x)| if i % 2 == 0 { *x } else { x + 3 }).collect();
            for (label, s2) in [("identical", &base), ("disjoint", &shifted), ("half-equal", &half)] {
                let reference = run_mle::<u16>(b, 20., &base, s2);
                for (n, pool) in &pools {
                    let o = pool.install(|| run_mle::<u16>(b, 20., &base, s2));
                    let card = pool.install(|| guarded(|| MleJaccard::new(b, m as u64, 20.).get_cardinal_estimate(&base[..])));
                    st.calls += 2;
                    let case = json!({"kind": "mle-pool", "b": b, "m": m, "threads": n, "s1": base, "s2": s2});
                    if let Some((key, what)) = judge_mle(&o) {
                        st.failing += 1;
                        ctx.violation(&format!("{}:pool", key), &format!("b={} m={} ({} registers) inside a rayon pool of {} workers: {}", b, m, label, n, what), case.clone());
                        continue;
                    }
                    if let Err(p) = &card {
                        st.failing += 1;
                        ctx.violation("cardinal-panic:pool", &format!("b={} m={} inside a rayon pool of {} workers: get_cardinal_estimate aborts: {}", b, m, n, &p[..p.len().min(200)]), case.clone());
                        continue;
                    }
                    if let (Ok(Some(x)), Ok(Some(y))) = (&o.res, &reference.res) {
                        st.distinct.insert(x.to_bits());
                        if (x - y).abs() > 1e-6 {
                            st.failing += 1;
                            ctx.violation("mle-depends-on-pool", &format!("b={} m={} ({} registers): get_mle gives {} inside a pool of {} workers and {} outside", b, m, label, x, n, y), case);
                        }
                    }
                }
            }
        }
    }
}

#[derive(Default)]
struct MStats {
    calls: u64,
    failing: u64,
    distinct: std::collections::BTreeSet<u64>,
}

/// real sketches of a family of sets, all ordered pairs
fn mle_real_sketches(ctx: &Ctx, st: &mut MStats) {
    let ms: Vec<u64> = ctx.pick(vec![64, 256], vec![64, 256, 4096]);
    let bs = [1.001f64, 1.2, 2.0];
    for &m in &ms {
        for &b in &bs {
            let q: u64 = if b < 1.01 { 65534 } else { 400 };
            let params = SetSketchParams::new(b, m, 20., q);
            let mk = || SetSketcher::<u16, u64, FnvHasher>::new(params, BuildHasherDefault::<FnvHasher>::default());
            let mut family: Vec<(String, Vec<u16>)> = Vec::new();
            // nested chain 0..n
            let chain_max: u64 = ctx.pick(20_000, 100_000);
            let mut sk = mk();
            let stops = [1u64, 2, 10, 100, 1000, 10_000, 20_000, 100_000];
            let mut next = 0u64;
            for &s in stops.iter().filter(|s| **s <= chain_max) {
                while next < s {
                    sk.sketch(&next).unwrap();
                    next += 1;
                }
                family.push((format!("[0,{})", s), sk.get_signature().clone()));
            }
            // other shapes
            let ranges: Vec<(u64, u64)> = vec![
                (1_000_000, 1_000_001),
                (1_000_000, 1_000_030),
                (300, 330),
                (5_000, 15_000),
                (1_000_000, 1_010_000),
                (9_000, 11_000),
                (0, 0),
            ];
            for (lo, hi) in ranges {
                let mut sk = mk();
                for x in lo..hi {
                    sk.sketch(&x).unwrap();
                }
                family.push((format!("[{},{})", lo, hi), sk.get_signature().clone()));
            }
            let n = family.len();
            let outs: Vec<(usize, usize, MleOut)> = (0..n * n)
                .into_par_iter()
                .map(|idx| {
                    let (i, j) = (idx / n, idx % n);
                    (i, j, run_mle::<u16>(b, 20., &family[i].1, &family[j].1))
                })
                .collect();
            let mut seen_keys = std::collections::BTreeSet::new();
            for (i, j, o) in outs {
                st.calls += 1;
                if let Ok(Some(v)) = &o.res {
                    st.distinct.insert(v.to_bits());
                }
                if let Some((key, what)) = judge_mle(&o) {
                    st.failing += 1;
                    if seen_keys.insert(key.clone()) {
                        ctx.violation(
                            &key,
                            &format!("b={} m={} real sketches of {} vs {}: {}", b, m, family[i].0, family[j].0, what),
                            json!({"kind": "mle-sets", "b": b, "m": m, "q": q, "set1": family[i].0, "set2": family[j].0, "s1": family[i].1, "s2": family[j].1}),
                        );
                    } else {
                        ctx.violation(&key, &what, json!({}));
                    }
                }
            }
        }
    }
}

pub fn run(ctx: &Ctx) -> i32 {
    silence_stderr(); // argmin's slog observer prints every iteration
    let mut st = CStats::default();
    let maxlen = 5;
    check_counting::<u16>(ctx, "u16", &[0, 7, u16::MAX], &generic_fns::<u16>(), maxlen, &mut st);
    check_counting::<u32>(ctx, "u32", &[0, 7, u32::MAX], &generic_fns::<u32>(), maxlen, &mut st);
    check_counting::<u64>(ctx, "u64", &[0, 7, u64::MAX], &generic_fns::<u64>(), maxlen, &mut st);
    check_counting::<usize>(ctx, "usize", &[0, 7, usize::MAX], &generic_fns::<usize>(), maxlen, &mut st);
    // float alphabets contain two values one ulp apart (distinct sketch values must never be counted as equal)
    let fa32 = [0.25f32, f32::from_bits(0.25f32.to_bits() + 1), 1.5, 4294967295.0];
    let fa64 = [0.25f64, f64::from_bits(0.25f64.to_bits() + 1), 1.5, 4294967295.0];
    check_counting::<f32>(ctx, "f32", &fa32, &generic_fns::<f32>(), maxlen, &mut st);
    check_counting::<f64>(ctx, "f64", &fa64, &generic_fns::<f64>(), maxlen, &mut st);
    check_counting::<f32>(ctx, "f32", &fa32, &float_fns::<f32>(exp_f32), maxlen, &mut st);
    check_counting::<f64>(ctx, "f64", &fa64, &float_fns::<f64>(exp_f64), maxlen, &mut st);
    check_methods(ctx, &mut st);
    aliased_generic::<u16>(ctx, "u16", &[0, 7, u16::MAX], &mut st);
    aliased_generic::<u64>(ctx, "u64", &[0, 7, u64::MAX], &mut st);
    aliased_generic::<f64>(ctx, "f64", &fa64[..3], &mut st);
    aliased_float::<f32>(ctx, "f32", &fa32[..3], exp_f32, &mut st);
    aliased_float::<f64>(ctx, "f64", &fa64[..3], exp_f64, &mut st);
    aliased_method(ctx, &mut st);
    check_long::<u16>(ctx, "u16", 3, 7, 9, &generic_fns::<u16>(), &mut st);
    check_long::<u64>(ctx, "u64", 3, 7, 9, &generic_fns::<u64>(), &mut st);
    check_long::<f32>(ctx, "f32", 0.25, 1.5, 2.5, &float_fns::<f32>(exp_f32), &mut st);
    check_long::<f64>(ctx, "f64", 0.25, 1.5, 2.5, &float_fns::<f64>(exp_f64), &mut st);
    let mut ms = MStats::default();
    mle_register_pairs(ctx, &mut ms);
    mle_real_sketches(ctx, &mut ms);
    mle_in_pools(ctx, &mut ms);
    {
        let a: Vec<u16> = vec![110, 100, 100];
        let b: Vec<u16> = vec![110, 110, 100];
        let o = run_mle::<u16>(1.2, 20., &a, &b);
        ctx.sample(json!({"mle": {"b": 1.2, "registers_1": a, "registers_2": b, "collision_fraction": o.jac, "bracket_upper": o.b_sup, "result": format!("{:?}", o.res)}}));
        let x = vec![0.25f64, f64::from_bits(0.25f64.to_bits() + 1), 1.5];
        let y = vec![0.25f64, 0.25, 1.5];
        ctx.sample(json!({"counting": {"fn": "superminhasher::compute_superminhash_jaccard<f64>", "a": x, "b": y, "result": format!("{:?}", superminhasher::compute_superminhash_jaccard(&x, &y).ok())}}));
    }
    println!(
        "C14 counting pairs={} length-mismatch pairs={} distinct values={} | mle calls={} failing={} distinct estimates={}",
        st.pairs,
        st.mismatch_pairs,
        st.distinct_values.len(),
        ms.calls,
        ms.failing,
        ms.distinct.len()
    );
    let coverage = json!({
        "states": st.distinct_values.len() + ms.distinct.len(),
        "transitions": st.pairs + st.mismatch_pairs + ms.calls,
        "traces_validated_against_impl": st.pairs + st.mismatch_pairs + ms.calls,
        "samples": [
            {"counting": {"fn": "superminhasher2::compute_superminhash_jaccard", "a": [0, 7, 7], "b": [0, 7, 0], "expected": "2/3 as f32"}},
            {"length_mismatch": {"fn": "jaccard::compute_probminhash_jaccard", "la": 2, "lb": 3}},
            {"mle_registers": {"b": 1.2, "s1": [110, 100, 100], "s2": [110, 110, 100]}},
            {"mle_sets": {"b": 1.001, "m": 256, "set1": "[300,330)", "set2": "[0,20000)"}}
        ],
        "exhaustive": true,
        "evaluations": st.pairs + st.mismatch_pairs + ms.calls,
        "distinct_nontrivial": st.distinct_values.len() + ms.distinct.len(),
        "rule": "counting: every ordered pair of sketches of length 1..5 over a 3-letter alphabet (4 letters for floats: two of them one ulp apart), for each of the 6 free functions and 2 methods and each element type (u16,u32,u64,usize,f32,f64), oracle count/len computed independently, symmetry, 1 on identical, plus all length pairs la!=lb<=5, plus the slice-taking functions on every pair of sub-slices (i..j, k..l) of one buffer of length 4 (aliased arguments, equal or different lengths) and the SuperMinHash method against sub-slices of its own sketch, plus sketches of length 65535, 65536, 65537 and 2^24+3 with 0, 1, a third, all but one and all positions equal; MLE: every ordered pair of register vectors over {100,101,102,110}^m and {0,1,log_b 1e3,log_b 1e6}^m (m<=3 quick, 4 thorough) for b in {1.001,1.2,2} and all ordered pairs of real sketches of a 15-set family (nested, disjoint, identical, 30 vs 20000, singletons, empty); distinct = distinct returned values",
        "counting_pairs": st.pairs,
        "length_mismatch_pairs": st.mismatch_pairs,
        "mle_calls": ms.calls,
        "mle_failing_calls": ms.failing,
    });
    ctx.finish(
        "model_checking",
        coverage,
        vec![
            "sketch lengths above 5 and alphabets above 3 letters behave like those explored (the estimators only compare elements)".into(),
            "MLE: only the listed register alphabets / set family / parameters are explored".into(),
        ],
    )
}

pub fn replay(_ctx: &Ctx, case: &Value) -> Result<(bool, String), String> {
    silence_stderr();
    match case["kind"].as_str() {
        Some("mle-registers") | Some("mle-sets") => {
            let b = case["b"].as_f64().ok_or("b")?;
            let s1: Vec<u16> = case["s1"].as_array().ok_or("s1")?.iter().map(|v| v.as_u64().unwrap_or(0) as u16).collect();
            let s2: Vec<u16> = case["s2"].as_array().ok_or("s2")?.iter().map(|v| v.as_u64().unwrap_or(0) as u16).collect();
            let o = run_mle::<u16>(b, 20., &s1, &s2);
            let j = judge_mle(&o);
            Ok((j.is_some(), format!("{:?}", j.map(|x| x.1).unwrap_or_else(|| format!("{:?}", o.res)))))
        }
        Some("mle-pool") => {
            let b = case["b"].as_f64().ok_or("b")?;
            let n = case["threads"].as_u64().ok_or("threads")? as usize;
            let s1: Vec<u16> = case["s1"].as_array().ok_or("s1")?.iter().map(|v| v.as_u64().unwrap_or(0) as u16).collect();
            let s2: Vec<u16> = case["s2"].as_array().ok_or("s2")?.iter().map(|v| v.as_u64().unwrap_or(0) as u16).collect();
            let pool = rayon::ThreadPoolBuilder::new().num_threads(n).build().map_err(|e| e.to_string())?;
            let o = pool.install(|| run_mle::<u16>(b, 20., &s1, &s2));
            let reference = run_mle::<u16>(b, 20., &s1, &s2);
            let j = judge_mle(&o);
            let differs = match (&o.res, &reference.res) {
                (Ok(Some(x)), Ok(Some(y))) => (x - y).abs() > 1e-6,
                _ => false,
            };
            Ok((j.is_some() || differs, format!("in pool of {}: {:?}; outside: {:?}", n, o.res, reference.res)))
        }
        Some(_) => Err("counting cases are re-derived by running the check itself (they are a complete enumeration)".into()),
        None => Err("kind".into()),
    }
}
