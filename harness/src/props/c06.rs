//! C06 — SetSketch cardinality estimate is accurate and monotone; the parallel estimator agrees.
//! Engine A for monotonicity (all streams / merges up to a length), engine D (partition form) for accuracy, and a
//! reduction-order model (all bracketings of the sum) validated against the real rayon runs for the parallel estimator.

use crate::common::{guarded_mut, mean_se, splitmix64, Ctx};
use fnv::FnvHasher;
use probminhash::setsketcher::{MleJaccard, SetSketchParams, SetSketcher};
use rayon::prelude::*;
use serde_json::{json, Value};
use std::collections::BTreeSet;
use std::hash::BuildHasherDefault;

fn new_ss<I>(p: SetSketchParams) -> SetSketcher<I, u64, FnvHasher>
where
    I: num::Integer + num::ToPrimitive + num::FromPrimitive + num::Bounded + Copy + Clone + std::fmt::Debug,
{
    SetSketcher::<I, u64, FnvHasher>::new(p, BuildHasherDefault::<FnvHasher>::default())
}

// ------------------------------------------------------------------------------------------------ monotone

/// every stream of length <= maxlen over 6 items (+ a merge op): the estimate never decreases
/// one monotone stream on registers of type I
fn monotone_one<I>(p: SetSketchParams, seq: &[usize]) -> Option<String>
where
    I: num::Integer + num::Bounded + num::ToPrimitive + num::FromPrimitive + Copy + Clone + Send + Sync + std::fmt::Debug,
{
    let mle = MleJaccard::new(p.get_b(), p.get_m(), p.get_a());
    let mut sk = new_ss::<I>(p);
    let mut other = new_ss::<I>(p);
    for x in 500u64..530 {
        other.sketch(&x).unwrap();
    }
    let mut other2 = new_ss::<I>(p);
    for x in 600u64..603 {
        other2.sketch(&x).unwrap();
    }
    let mut prev = sk.get_cardinal_stats().0;
    for (i, s) in seq.iter().enumerate() {
        match s {
            0..=5 => sk.sketch(&(*s as u64 + 1)).unwrap(),
            6 => {
                for x in 100u64..112 {
                    sk.sketch(&x).unwrap();
                }
            }
            7 => sk.merge(&other).unwrap(),
            _ => sk.merge(&other2).unwrap(),
        }
        let e = sk.get_cardinal_stats().0;
        if !(e >= prev) {
            return Some(format!("estimate went from {} to {} at step {}", prev, e, i));
        }
        prev = e;
        // the parallel estimator on the raw registers agrees up to rounding
        let pe = mle.get_cardinal_estimate(sk.get_signature());
        if !(((pe - e) / e).abs() <= 64. * f64::EPSILON || (pe == e)) {
            return Some(format!("at step {} the sketcher estimates {} but the parallel estimator on the same registers {}", i, e, pe));
        }
    }
    None
}

fn monotone(ctx: &Ctx, maxlen: usize) -> (u64, u64) {
    let params: Vec<(&str, SetSketchParams)> = vec![
        ("(1.001,1,20,65534)", SetSketchParams::new(1.001, 1, 20., 65534)),
        ("(1.001,4,20,65534)", SetSketchParams::new(1.001, 4, 20., 65534)),
        ("(2,16,20,62)", SetSketchParams::new(2.0, 16, 20., 62)),
        ("(1.2,3,20,3)", SetSketchParams::new(1.2, 3, 20., 3)),
        ("(1.2,64,20,400)", SetSketchParams::new(1.2, 64, 20., 400)),
        // extreme rates a: registers saturate at q+1 after a few items / stay at 0 for a long time
        ("(2,8,2^62,63)", SetSketchParams::new(2.0, 8, 2f64.powi(62), 63)),
        ("(2,8,2^52,63)", SetSketchParams::new(2.0, 8, 2f64.powi(52), 63)),
        ("(2,4,2^44,62)", SetSketchParams::new(2.0, 4, 2f64.powi(44), 62)),
        ("(1.2,8,1e14,200)", SetSketchParams::new(1.2, 8, 1e14, 200)),
        ("(1.001,4,1e-4,65534)", SetSketchParams::new(1.001, 4, 1e-4, 65534)),
        // u32 registers above 2^31 (b next to 1, a large rate): no saturation, but the register no longer fits an i32
        ("u32 registers (1+1e-8,4,1e12,2^32-2)", SetSketchParams::new(1.0 + 1e-8, 4, 1e12, 4294967294)),
    ];
    let nsym = 9usize; // 6 items, a burst, a merge with a 30-item sketch, a merge with a 3-item sketch
    let mut streams = 0u64;
    let mut steps = 0u64;
    for (pname, p) in params {
        let wide = pname.starts_with("u32");
        let total: u64 = (nsym as u64).pow(maxlen as u32);
        let res: Vec<(u64, Option<(Vec<usize>, String)>)> = (0..total)
            .into_par_iter()
            .map(|code| {
                let mut c = code;
                let seq: Vec<usize> = (0..maxlen)
                    .map(|_| {
                        let s = (c % nsym as u64) as usize;
                        c /= nsym as u64;
                        s
                    })
                    .collect();
                let r = guarded_mut(|| if wide { monotone_one::<u32>(p, &seq) } else { monotone_one::<u16>(p, &seq) });
                match r {
                    Ok(None) => (maxlen as u64, None),
                    Ok(Some(w)) => (maxlen as u64, Some((seq, w))),
                    Err(p) => (maxlen as u64, Some((seq, format!("panic: {}", p)))),
                }
            })
            .collect();
        streams += total;
        for (n, bad) in res {
            steps += n;
            if let Some((seq, w)) = bad {
                ctx.violation(
                    &format!("monotone:{}", pname),
                    &format!("SetSketcher<u16> {}: stream {:?} (0-5 items, 6 burst, 7 merge with a 30-item sketch, 8 merge with a 3-item sketch): {}", pname, seq, w),
                    json!({"kind": "monotone", "params": pname, "seq": seq}),
                );
                break;
            }
        }
    }
    (streams, steps)
}

// ------------------------------------------------------------------------------------------------ entry points, boundary items

/// The estimate of a set is the same whichever way its items enter (item by item, one slice, two slices, an item then a
/// slice), also for items whose 64-bit hash is a boundary value (pre-hashed data through the no-op hasher: 0, 1, 2^64-1, ...),
/// and a singleton is estimated as about one item.  All ordered selections of up to 3 items of an 8-item alphabet.
fn entry_points(ctx: &Ctx) -> (u64, u64) {
    use probminhash::nohasher::NoHashHasher;
    let hashes: [u64; 8] = [0, 1, u64::MAX, u64::MAX - 1, 1 << 63, 1 << 32, 0xFFFF_FFFF, 12345];
    let mut seqs: Vec<Vec<u64>> = Vec::new();
    for a in 0..8 {
        seqs.push(vec![a]);
        for b in 0..8 {
            if b != a {
                seqs.push(vec![a, b]);
                for c in 0..8 {
                    if c != a && c != b {
                        seqs.push(vec![a, b, c]);
                    }
                }
            }
        }
    }
    let mut runs = 0u64;
    let mut distinct: BTreeSet<u64> = BTreeSet::new();
    for (pname, p) in [("(1.001,256,20,65534)", SetSketchParams::new(1.001, 256, 20., 65534)), ("(2,64,20,62)", SetSketchParams::new(2.0, 64, 20., 62))] {
        for nohash in [true, false] {
            let mut reported = false;
            for sq in &seqs {
                // the no-op hasher reads the 8 bytes of a u64 big-endian
                let items: Vec<u64> = sq.iter().map(|i| if nohash { hashes[*i as usize].swap_bytes() } else { hashes[*i as usize] }).collect();
                let r = guarded_mut(|| -> Result<f64, String> {
                    type Obs = (Vec<u16>, u64);
                    let obs = |plan: &[(bool, &[u64])]| -> Result<Obs, String> {
                        // plan: (as slice?, items)
                        macro_rules! go {
                            ($sk:expr) => {{
                                let mut sk = $sk;
                                for (as_slice, its) in plan {
                                    if *as_slice {
                                        sk.sketch_slice(its).map_err(|e| e.to_string())?;
                                    } else {
                                        for x in its.iter() {
                                            sk.sketch(x).map_err(|e| e.to_string())?;
                                        }
                                    }
                                }
                                Ok((sk.get_signature().clone(), sk.get_cardinal_stats().0.to_bits()))
                            }};
                        }
                        if nohash {
                            go!(SetSketcher::<u16, u64, NoHashHasher>::new(p, BuildHasherDefault::<NoHashHasher>::default()))
                        } else {
                            go!(new_ss::<u16>(p))
                        }
                    };
                    let reference = obs(&[(false, &items)])?;
                    let mut plans: Vec<Vec<(bool, &[u64])>> = vec![vec![(true, &items[..])]];
                    for cut in 1..items.len() {
                        plans.push(vec![(true, &items[..cut]), (true, &items[cut..])]);
                        plans.push(vec![(false, &items[..cut]), (true, &items[cut..])]);
                        plans.push(vec![(true, &items[..cut]), (false, &items[cut..])]);
                    }
                    for plan in &plans {
                        let o = obs(plan)?;
                        if o != reference {
                            return Err(format!(
                                "items with hashes {:x?}: estimate {} through {:?} but {} item by item",
                                sq.iter().map(|i| hashes[*i as usize]).collect::<Vec<_>>(),
                                f64::from_bits(o.1),
                                plan.iter().map(|(s, its)| format!("{}{}", if *s { "slice of " } else { "items x" }, its.len())).collect::<Vec<_>>(),
                                f64::from_bits(reference.1)
                            ));
                        }
                    }
                    let est = f64::from_bits(reference.1);
                    if items.len() == 1 && !(est > 0.4 && est < 2.5) {
                        return Err(format!("the set of the single item with hash {:#x} is estimated at {} items", hashes[sq[0] as usize], est));
                    }
                    Ok(est)
                });
                runs += 1 + 3 * (sq.len() as u64 - 1) + 1;
                let problem = match r {
                    Ok(Ok(e)) => {
                        distinct.insert(e.to_bits());
                        None
                    }
                    Ok(Err(w)) => Some(w),
                    Err(pn) => Some(format!("panic {}", pn)),
                };
                if let Some(w) = problem {
                    if !reported {
                        reported = true;
                        ctx.violation(
                            &format!("entry-points:{}", if nohash { "nohash" } else { "fnv" }),
                            &format!("SetSketcher<u16> {} {}: {}", pname, if nohash { "[no-op hasher]" } else { "[Fnv]" }, w),
                            json!({"kind": "entry"}),
                        );
                    }
                }
            }
        }
    }
    (runs, distinct.len() as u64)
}

// ------------------------------------------------------------------------------------------------ accuracy

#[derive(Clone, Debug)]
struct AccCfg {
    b: f64,
    q: u64,
    m: u64,
    n: u64,
    wide: bool,
    repeat: bool,
    t: u64,
}

fn estimates(cfg: &AccCfg, base: u64) -> Vec<(f64, f64, f64)> {
    let p = SetSketchParams::new(cfg.b, cfg.m, 20., cfg.q);
    let mle = MleJaccard::new(cfg.b, cfg.m, 20.);
    (0..cfg.t)
        .into_par_iter()
        .map(|t| {
            let o = base.wrapping_add(t * cfg.n);
            let run = |wide: bool| -> (f64, f64, f64) {
                if wide {
                    let mut s = new_ss::<u32>(p);
                    for x in o..o + cfg.n {
                        s.sketch(&x).unwrap();
                    }
                    if cfg.repeat {
                        for x in (o..o + cfg.n).step_by(3) {
                            s.sketch(&x).unwrap();
                        }
                    }
                    let (c, r) = s.get_cardinal_stats();
                    (c, r, mle.get_cardinal_estimate(s.get_signature()))
                } else {
                    let mut s = new_ss::<u16>(p);
                    for x in o..o + cfg.n {
                        s.sketch(&x).unwrap();
                    }
                    if cfg.repeat {
                        for x in (o..o + cfg.n).step_by(3) {
                            s.sketch(&x).unwrap();
                        }
                    }
                    let (c, r) = s.get_cardinal_stats();
                    (c, r, mle.get_cardinal_estimate(s.get_signature()))
                }
            };
            run(cfg.wide)
        })
        .collect()
}

struct AccOut {
    rel_bias: f64,
    bias_se: f64,
    spread_ratio: f64,
    spread_se: f64,
    rsd: f64,
    par_max_rel_diff: f64,
}

fn accuracy(cfg: &AccCfg, base: u64) -> AccOut {
    let v = estimates(cfg, base);
    let rel: Vec<f64> = v.iter().map(|x| x.0 / cfg.n as f64).collect();
    let (mean, se) = mean_se(&rel);
    let sd = se * (rel.len() as f64).sqrt();
    let rsd = v[0].1;
    let par = v.iter().map(|x| ((x.2 - x.0) / x.0).abs()).fold(0., f64::max);
    AccOut { rel_bias: mean - 1., bias_se: se, spread_ratio: sd / rsd, spread_se: (sd / rsd) / (2. * rel.len() as f64).sqrt(), rsd, par_max_rel_diff: par }
}

fn acc_configs(quick: bool) -> Vec<AccCfg> {
    let mut v = Vec::new();
    let ms: Vec<u64> = if quick { vec![64, 256] } else { vec![64, 256, 1024, 4096] };
    let ns: Vec<u64> = if quick { vec![1, 2, 10, 1000, 100_000] } else { vec![1, 2, 10, 1000, 100_000, 1_000_000] };
    let mut i = 0;
    for &(b, q) in &[(1.001f64, 65534u64), (1.2, 400), (2.0, 62)] {
        for &m in &ms {
            for &n in &ns {
                i += 1;
                // T >= 36 m so that 6 standard errors stay below the slack of the claim; bounded by an item budget
                let want = 36 * m;
                let budget: u64 = if quick { 30_000_000 } else { 150_000_000 };
                let t = want.min((budget / n).max(200));
                v.push(AccCfg { b, q, m, n, wide: i % 2 == 0, repeat: i % 3 == 0, t });
            }
        }
    }
    // tiny sets on large sketches: T just large enough to resolve a 0.2 % shift (per-sketch spread ~ 1/sqrt(m))
    for &(b, q) in &[(2.0f64, 62u64), (1.2, 400), (1.001, 65534)] {
        for &n in &[2u64, 5, 8] {
            i += 1;
            v.push(AccCfg { b, q, m: 4096, n, wide: i % 2 == 0, repeat: false, t: if quick { 4000 } else { 30_000 } });
        }
    }
    v
}

// ------------------------------------------------------------------------------------------------ parallel estimator

/// all values the sum of `terms` (in order) can take over every bracketing
fn all_bracketing_sums(terms: &[f64]) -> BTreeSet<u64> {
    let n = terms.len();
    let mut s: Vec<Vec<BTreeSet<u64>>> = vec![vec![BTreeSet::new(); n + 1]; n + 1];
    for i in 0..n {
        s[i][i + 1].insert(terms[i].to_bits());
    }
    for len in 2..=n {
        for i in 0..=(n - len) {
            let j = i + len;
            let mut set = BTreeSet::new();
            for k in (i + 1)..j {
                for x in &s[i][k] {
                    for y in &s[k][j] {
                        set.insert((f64::from_bits(*x) + f64::from_bits(*y)).to_bits());
                    }
                }
            }
            s[i][j] = set;
        }
    }
    s[0][n].clone()
}

fn catalan(n: usize) -> u64 {
    let mut c = 1u64;
    for i in 0..n as u64 {
        c = c * 2 * (2 * i + 1) / (i + 2);
    }
    c
}

struct ParOut {
    sketches: u64,
    bracketings: u64,
    distinct_sums: u64,
    real_runs: u64,
    findings: Vec<(String, String, Value)>,
}

fn parallel_model(ctx: &Ctx) -> ParOut {
    let mut out = ParOut { sketches: 0, bracketings: 0, distinct_sums: 0, real_runs: 0, findings: vec![] };
    let pools: Vec<rayon::ThreadPool> = [1usize, 2, 3, 4, 8, 16].iter().map(|n| rayon::ThreadPoolBuilder::new().num_threads(*n).build().unwrap()).collect();
    let maxm = ctx.pick(9usize, 11);
    for m in 1..=maxm {
        for &(b, q) in &[(1.001f64, 65534u64), (1.2, 400), (2.0, 62)] {
            let p = SetSketchParams::new(b, m as u64, 20., q);
            for set in 0..ctx.pick(6u64, 20) {
                let mut s = new_ss::<u16>(p);
                let n = [1u64, 3, 17, 200, 5000, 40][set as usize % 6] + set;
                for x in 0..n {
                    s.sketch(&(x + 1000 * set)).unwrap();
                }
                let sig = s.get_signature().clone();
                out.sketches += 1;
                let lnb = (b - 1.).ln_1p();
                let terms: Vec<f64> = sig.iter().map(|c| (-(*c as f64) * (b - 1.).ln_1p()).exp()).collect();
                let sums = all_bracketing_sums(&terms);
                out.bracketings += catalan(m - 1);
                out.distinct_sums += sums.len() as u64;
                let seq = s.get_cardinal_stats().0;
                let card_of = |sum: f64| m as f64 * (1. - 1. / b) / (20. * lnb * sum);
                let modelled: BTreeSet<u64> = sums.iter().map(|x| card_of(f64::from_bits(*x)).to_bits()).collect();
                // every bracketing agrees with the sequential estimate up to rounding
                let tol = (m as f64 + 32.) * f64::EPSILON; // "up to rounding": m additions plus a few operations of the closed form
                for c in &modelled {
                    let c = f64::from_bits(*c);
                    if ((c - seq) / seq).abs() > tol {
                        out.findings.push((
                            "parallel:bracketing-spread".into(),
                            format!("b={} m={} registers {:?}: some reduction order gives {} while the sequential estimate is {} (beyond (m+32)*2^-52 relative)", b, m, sig, c, seq),
                            json!({"kind": "parallel", "b": b, "sig": sig}),
                        ));
                        break;
                    }
                }
                let mle = MleJaccard::new(b, m as u64, 20.);
                for (pi, pool) in pools.iter().enumerate() {
                    for _rep in 0..3 {
                        let r = pool.install(|| mle.get_cardinal_estimate(&sig));
                        out.real_runs += 1;
                        if !modelled.contains(&r.to_bits()) {
                            out.findings.push((
                                "parallel:not-a-reduction-order".into(),
                                format!(
                                    "b={} m={} registers {:?}: the parallel estimator returned {} under a pool of {} threads, which no bracketing of the {} terms produces (sequential: {})",
                                    b,
                                    m,
                                    sig,
                                    r,
                                    [1, 2, 3, 4, 8, 16][pi],
                                    m,
                                    seq
                                ),
                                json!({"kind": "parallel", "b": b, "sig": sig}),
                            ));
                        }
                        if ((r - seq) / seq).abs() > tol {
                            out.findings.push((
                                "parallel:disagrees".into(),
                                format!("b={} m={} registers {:?}: parallel estimate {} vs sketcher's own {}", b, m, sig, r, seq),
                                json!({"kind": "parallel", "b": b, "sig": sig}),
                            ));
                        }
                    }
                }
            }
        }
    }
    out
}

pub fn run(ctx: &Ctx) -> i32 {
    // ---- monotone
    let (streams, steps) = monotone(ctx, ctx.pick(5usize, 6));
    println!("C06 monotone: {} streams, {} steps", streams, steps);
    let (entry_runs, entry_distinct) = entry_points(ctx);
    println!("C06 entry points / boundary items: {} runs, {} distinct estimates", entry_runs, entry_distinct);
    // ---- parallel estimator: reduction-order model + real pools
    let par = parallel_model(ctx);
    for (k, w, c) in &par.findings {
        ctx.violation(k, w, c.clone());
    }
    println!("C06 parallel: {} sketches, {} bracketings modelled ({} distinct sums), {} real pool runs validated for membership", par.sketches, par.bracketings, par.distinct_sums, par.real_runs);
    // ---- accuracy
    let base = splitmix64(ctx.seed ^ 0xC06) >> 10;
    let mut details = Vec::new();
    let mut sets = 0u64;
    let mut worst_par: f64 = 0.;
    for (i, cfg) in acc_configs(ctx.quick()).iter().enumerate() {
        let b0 = base + ((i as u64) << 42);
        let o = accuracy(cfg, b0);
        sets += cfg.t;
        worst_par = worst_par.max(o.par_max_rel_diff);
        let bias_limit = 2. * o.rsd * o.rsd;
        let mut bad_bias = o.rel_bias.abs() > bias_limit + 6. * o.bias_se;
        let mut bad_spread = cfg.m >= 64 && (o.spread_ratio - 1.).abs() > 0.15 + 6. * o.spread_se;
        let bad_par = o.par_max_rel_diff > (cfg.m as f64 + 32.) * f64::EPSILON;
        let mut confirm = None;
        if bad_bias || bad_spread {
            let mut c2 = cfg.clone();
            c2.t = (cfg.t * 4).min(2_000_000_000 / cfg.n.max(1)).max(cfg.t);
            let o2 = accuracy(&c2, b0 + (1u64 << 41));
            sets += c2.t;
            bad_bias = bad_bias && o2.rel_bias.abs() > bias_limit + 6. * o2.bias_se && o2.rel_bias.signum() == o.rel_bias.signum();
            bad_spread = bad_spread && (o2.spread_ratio - 1.).abs() > 0.15 + 6. * o2.spread_se;
            confirm = Some((o2.rel_bias, o2.spread_ratio));
        }
        let case = json!({"kind": "accuracy", "b": cfg.b, "q": cfg.q, "m": cfg.m, "n": cfg.n, "wide": cfg.wide, "repeat": cfg.repeat, "t": cfg.t, "base": b0.to_string()});
        if bad_bias {
            ctx.violation(
                &format!("bias:b={}:m={}:n={}", cfg.b, cfg.m, cfg.n),
                &format!("{:?}: mean relative error {:.5} (se {:.5}) exceeds 2*rsd^2 = {:.5}; confirm run {:?}", cfg, o.rel_bias, o.bias_se, bias_limit, confirm),
                case.clone(),
            );
        }
        if bad_spread {
            ctx.violation(
                &format!("spread:b={}:m={}:n={}", cfg.b, cfg.m, cfg.n),
                &format!("{:?}: observed relative spread / advertised rsd = {:.4} (se {:.4}), outside 1 +- 0.15; confirm run {:?}", cfg, o.spread_ratio, o.spread_se, confirm),
                case.clone(),
            );
        }
        if bad_par {
            ctx.violation(
                "parallel:disagrees",
                &format!("{:?}: MleJaccard::get_cardinal_estimate differs from get_cardinal_stats by {:.3e} relative", cfg, o.par_max_rel_diff),
                case,
            );
        }
        if i % 11 == 2 {
            ctx.sample(json!({"accuracy_cfg": {"b": cfg.b, "q": cfg.q, "m": cfg.m, "n": cfg.n, "sets": cfg.t, "first_set_ids_start_at": b0.to_string()}, "mean_relative_error": o.rel_bias, "limit_2rsd2": bias_limit, "spread_over_rsd": o.spread_ratio}));
        }
        details.push(json!({"b": cfg.b, "q": cfg.q, "m": cfg.m, "n": cfg.n, "registers": if cfg.wide { "u32" } else { "u16" }, "with_repetition": cfg.repeat, "sets": cfg.t,
            "relative_bias": o.rel_bias, "bias_se": o.bias_se, "limit_2rsd2": bias_limit, "spread_over_rsd": o.spread_ratio, "spread_se": o.spread_se, "rsd": o.rsd, "parallel_max_rel_diff": o.par_max_rel_diff}));
    }
    let worst_bias = details.iter().map(|d| d["relative_bias"].as_f64().unwrap().abs() / d["limit_2rsd2"].as_f64().unwrap()).fold(0., f64::max);
    println!("C06 accuracy: {} configurations, {} sets; worst |bias|/(2 rsd^2) = {:.3}; worst parallel-vs-sequential relative difference {:.2e}", details.len(), sets, worst_bias, worst_par);
    let coverage = json!({
        "evaluations": streams + par.real_runs + sets + entry_runs,
        "distinct_nontrivial": par.distinct_sums + details.len() as u64,
        "entry_points": {"runs": entry_runs, "distinct_estimates": entry_distinct, "what": "all ordered selections of 1..3 items from 8 items (hashes 0, 1, 2^64-1, 2^64-2, 2^63, 2^32, 2^32-1, 12345 through the no-op hasher; the same integers through Fnv), 2 parameter sets: the estimate and registers are the same item by item, as one slice, as two slices, as items then a slice and as a slice then items; a singleton is estimated between 0.4 and 2.5"},
        "rule": "monotone: every stream of length 5 (6) over {6 items, a burst of 12 items, merges with two different fixed sketches} for 10 parameter sets (5 of them with extreme rates a: registers saturating at q+1 or staying at 0), estimate non-decreasing after every step (exact) and equal to the parallel estimator on the same registers up to rounding; parallel estimator: for m<=9 (11) and 3 bases, ALL Catalan(m-1) bracketings of the sum of the m register terms are enumerated (the reduction orders a rayon pool can realise), every one must agree with the sequential estimate within (m+32)*2^-52 relative, and the real get_cardinal_estimate run under pools of 1,2,3,4,8,16 threads must be a member of the modelled outcome set (trace validation); accuracy: n in {1,2,10,1e3,1e5,(1e6)} x m in {64,256,(1024,4096)} x 3 (b,q) x u16/u32 x with/without repetition, T disjoint sets each (T>=36m where the item budget allows): |mean(n^/n)-1| <= 2 rsd^2 + 6 se, |sd/rsd-1| <= 0.15 + 6 se, confirmed on a 4x larger fresh block; distinct = distinct bracketing sums + configurations",
        "samples": [
            {"monotone_stream": [0, 6, 3, 7, 3], "meaning": "item 1, burst, item 4, merge, item 4"},
            {"bracketings": {"m": 4, "terms": "b^-k_i of the 4 registers", "trees": 5}},
            {"accuracy": {"b": 1.001, "m": 64, "n": 1000, "sets": 2304}}
        ],
        "exhaustive": false,
        "exhaustive_scope": "monotone streams and bracketings are enumerated completely; accuracy is a finite-population statement on seeded blocks; rayon's scheduler itself is not controlled - its reduction orders are modelled and real runs validated for membership",
        "monotone_streams": streams,
        "monotone_steps": steps,
        "parallel": {"sketches": par.sketches, "bracketings": par.bracketings, "distinct_sums": par.distinct_sums, "real_pool_runs": par.real_runs},
        "accuracy": details,
    });
    ctx.finish(
        "exploration",
        coverage,
        vec![
            "rayon's sum is a fold of '+' over an order-preserving binary splitting of the slice (modelled as all bracketings)".into(),
            "accuracy clauses are decided for the enumerated blocks with a 6 sigma / confirm rule".into(),
        ],
    )
}

pub fn replay(_ctx: &Ctx, case: &Value) -> Result<(bool, String), String> {
    match case["kind"].as_str() {
        Some("parallel") => {
            let b = case["b"].as_f64().ok_or("b")?;
            let sig: Vec<u16> = case["sig"].as_array().ok_or("sig")?.iter().map(|v| v.as_u64().unwrap_or(0) as u16).collect();
            let m = sig.len();
            let mle = MleJaccard::new(b, m as u64, 20.);
            let r = mle.get_cardinal_estimate(&sig);
            let lnb = (b - 1.).ln_1p();
            let terms: Vec<f64> = sig.iter().map(|c| (-(*c as f64) * lnb).exp()).collect();
            let sums = all_bracketing_sums(&terms);
            let ok = sums.iter().any(|s| (m as f64 * (1. - 1. / b) / (20. * lnb * f64::from_bits(*s))).to_bits() == r.to_bits());
            Ok((!ok, format!("parallel estimate {} is a modelled reduction order: {}", r, ok)))
        }
        Some("accuracy") => {
            let cfg = AccCfg {
                b: case["b"].as_f64().ok_or("b")?,
                q: case["q"].as_u64().ok_or("q")?,
                m: case["m"].as_u64().ok_or("m")?,
                n: case["n"].as_u64().ok_or("n")?,
                wide: case["wide"].as_bool().ok_or("wide")?,
                repeat: case["repeat"].as_bool().ok_or("repeat")?,
                t: case["t"].as_u64().ok_or("t")?,
            };
            let base: u64 = case["base"].as_str().ok_or("base")?.parse().map_err(|e| format!("{}", e))?;
            let o = accuracy(&cfg, base);
            let viol = o.rel_bias.abs() > 2. * o.rsd * o.rsd + 6. * o.bias_se || (cfg.m >= 64 && (o.spread_ratio - 1.).abs() > 0.15 + 6. * o.spread_se);
            Ok((viol, format!("relative bias {:.5} (limit {:.5}), spread/rsd {:.4}", o.rel_bias, 2. * o.rsd * o.rsd, o.spread_ratio)))
        }
        Some(_) => Err("re-derived by running the check".into()),
        None => Err("kind".into()),
    }
}
