//! C05 — sketch of a union is the position-wise join; SetSketch merge is exact.
//! Engine A: all subsets of an item alphabet against the join of the real single-item sketches; all operation
//! sequences over three SetSketch instances (sketch / merge) against a set model; merge algebra; refusal.

use crate::common::{guarded_mut, Ctx};
use fnv::FnvHasher;
use probminhash::setsketcher::{SetSketchParams, SetSketcher};
use probminhash::superminhasher::SuperMinHash;
use rayon::prelude::*;
use serde_json::{json, Value};
use std::collections::BTreeSet;
use std::hash::BuildHasherDefault;

pub trait Reg: num::Integer + num::ToPrimitive + num::FromPrimitive + num::Bounded + Copy + Clone + std::fmt::Debug + Send + Sync + 'static {
    fn rname() -> &'static str;
}
impl Reg for u8 {
    fn rname() -> &'static str {
        "u8"
    }
}
impl Reg for u16 {
    fn rname() -> &'static str {
        "u16"
    }
}
impl Reg for u32 {
    fn rname() -> &'static str {
        "u32"
    }
}

fn new_ss<I: Reg>(p: SetSketchParams) -> SetSketcher<I, u64, FnvHasher> {
    SetSketcher::<I, u64, FnvHasher>::new(p, BuildHasherDefault::<FnvHasher>::default())
}

fn sig_of<I: Reg>(s: &SetSketcher<I, u64, FnvHasher>) -> Vec<u64> {
    s.get_signature().iter().map(|x| x.to_u64().unwrap()).collect()
}

/// orders in which a subset is streamed: all permutations for small subsets, four canonical orders above
fn orders(items: &[u64]) -> Vec<Vec<u64>> {
    if items.len() <= 4 {
        crate::common::permutations(items.len()).into_iter().map(|p| p.iter().map(|i| items[*i]).collect()).collect()
    } else {
        let mut rev = items.to_vec();
        rev.reverse();
        let mut rot = items.to_vec();
        rot.rotate_left(items.len() / 2);
        let mut inter: Vec<u64> = Vec::new();
        let (mut i, mut j) = (0usize, items.len() - 1);
        while i <= j {
            inter.push(items[i]);
            if i != j {
                inter.push(items[j]);
            }
            i += 1;
            if j == 0 {
                break;
            }
            j -= 1;
        }
        vec![items.to_vec(), rev, rot, inter]
    }
}

struct JoinOut {
    execs: u64,
    subsets: u64,
    bad: Option<(String, Value)>,
    distinct: u64,
}

fn join_setsketch<I: Reg>(p: SetSketchParams, pname: &str, alphabet: &[u64]) -> JoinOut {
    let singles: Vec<Vec<u64>> = alphabet
        .iter()
        .map(|x| {
            let mut s = new_ss::<I>(p);
            s.sketch(x).unwrap();
            sig_of(&s)
        })
        .collect();
    let m = p.get_m() as usize;
    let n = alphabet.len();
    let res: Vec<(u64, Option<(String, Value)>, Vec<u64>)> = (1u32..(1u32 << n))
        .into_par_iter()
        .map(|mask| {
            let idx: Vec<usize> = (0..n).filter(|i| mask & (1 << i) != 0).collect();
            let items: Vec<u64> = idx.iter().map(|i| alphabet[*i]).collect();
            let mut want = vec![0u64; m];
            for i in &idx {
                for k in 0..m {
                    want[k] = want[k].max(singles[*i][k]);
                }
            }
            let mut execs = 0;
            let mut bad = None;
            for ord in orders(&items) {
                execs += 1;
                let r = guarded_mut(|| {
                    let mut s = new_ss::<I>(p);
                    for x in &ord {
                        s.sketch(x).unwrap();
                    }
                    (sig_of(&s), s.get_low_sketch())
                });
                match r {
                    Err(pn) => {
                        bad = Some((format!("SetSketcher<{}> {} items {:?}: panic {}", I::rname(), pname, ord, pn), json!({"kind": "join-set", "reg": I::rname(), "params": pname, "items": ord})));
                    }
                    Ok((sig, low)) => {
                        if sig != want && bad.is_none() {
                            let k = (0..m).find(|k| sig[*k] != want[*k]).unwrap();
                            bad = Some((
                                format!(
                                    "SetSketcher<{}> {}: sketch of {:?} has register {} = {} but the maximum of the single-item sketches is {}",
                                    I::rname(),
                                    pname,
                                    ord,
                                    k,
                                    sig[k],
                                    want[k]
                                ),
                                json!({"kind": "join-set", "reg": I::rname(), "params": pname, "items": ord}),
                            ));
                        }
                        let minreg = *sig.iter().min().unwrap() as i64;
                        if low > minreg && bad.is_none() {
                            bad = Some((
                                format!("SetSketcher<{}> {} items {:?}: reported lowest register {} exceeds the true minimum {}", I::rname(), pname, ord, low, minreg),
                                json!({"kind": "join-set", "reg": I::rname(), "params": pname, "items": ord}),
                            ));
                        }
                    }
                }
            }
            (execs, bad, want)
        })
        .collect();
    let mut out = JoinOut { execs: 0, subsets: res.len() as u64, bad: None, distinct: 0 };
    let mut distinct = BTreeSet::new();
    for (e, b, w) in res {
        out.execs += e;
        if out.bad.is_none() {
            out.bad = b;
        }
        distinct.insert(w);
    }
    out.distinct = distinct.len() as u64;
    out
}

fn join_superminhash<F: num::Float + rand_distr::uniform::SampleUniform + std::fmt::Debug + Send + Sync>(fname: &str, m: usize, alphabet: &[u64]) -> JoinOut
where
    rand::distr::StandardUniform: rand::distr::Distribution<F>,
{
    join_superminhash_h::<F, FnvHasher>(fname, m, alphabet)
}

fn join_superminhash_h<F: num::Float + rand_distr::uniform::SampleUniform + std::fmt::Debug + Send + Sync, H: std::hash::Hasher + Default>(fname: &str, m: usize, alphabet: &[u64]) -> JoinOut
where
    rand::distr::StandardUniform: rand::distr::Distribution<F>,
{
    let mk = || SuperMinHash::<F, u64, H>::new(m, BuildHasherDefault::<H>::default());
    let bits = |s: &SuperMinHash<F, u64, H>| -> Vec<f64> { s.get_hsketch().iter().map(|f| f.to_f64().unwrap()).collect() };
    let singles: Vec<Vec<f64>> = alphabet
        .iter()
        .map(|x| {
            let mut s = mk();
            s.sketch(x).unwrap();
            bits(&s)
        })
        .collect();
    let n = alphabet.len();
    let res: Vec<(u64, Option<(String, Value)>, Vec<u64>)> = (1u32..(1u32 << n))
        .into_par_iter()
        .map(|mask| {
            let idx: Vec<usize> = (0..n).filter(|i| mask & (1 << i) != 0).collect();
            let items: Vec<u64> = idx.iter().map(|i| alphabet[*i]).collect();
            let mut want = vec![f64::INFINITY; m];
            for i in &idx {
                for k in 0..m {
                    want[k] = want[k].min(singles[*i][k]);
                }
            }
            let mut execs = 0;
            let mut bad = None;
            for ord in orders(&items) {
                execs += 1;
                let r = guarded_mut(|| {
                    // both entry points: item-wise, and one slice call
                    let mut s = mk();
                    for x in &ord {
                        s.sketch(x).unwrap();
                    }
                    let mut t = mk();
                    t.sketch_slice(&ord).unwrap();
                    if bits(&t) != bits(&s) {
                        // report the slice result: it is the one that departs from the join
                        return bits(&t);
                    }
                    bits(&s)
                });
                match r {
                    Err(pn) => bad = Some((format!("SuperMinHash<{}> m={} items {:?}: panic {}", fname, m, ord, pn), json!({"kind": "join-smh", "float": fname, "m": m, "items": ord}))),
                    Ok(sig) => {
                        if sig != want && bad.is_none() {
                            let k = (0..m).find(|k| sig[*k] != want[*k]).unwrap();
                            bad = Some((
                                format!("SuperMinHash<{}> m={}: sketch of {:?} has position {} = {} but the minimum of the single-item sketches is {}", fname, m, ord, k, sig[k], want[k]),
                                json!({"kind": "join-smh", "float": fname, "m": m, "items": ord}),
                            ));
                        }
                    }
                }
            }
            (execs, bad, want.iter().map(|f| f.to_bits()).collect())
        })
        .collect();
    let mut out = JoinOut { execs: 0, subsets: res.len() as u64, bad: None, distinct: 0 };
    let mut distinct = BTreeSet::new();
    for (e, b, w) in res {
        out.execs += e;
        if out.bad.is_none() {
            out.bad = b;
        }
        distinct.insert(w);
    }
    out.distinct = distinct.len() as u64;
    out
}

// ------------------------------------------------------------------------------------------------
// merge algebra: all op sequences over three instances

#[derive(Clone, Copy, Debug, PartialEq, Eq)]
enum MOp {
    Sketch(usize, usize), // instance, item slot (3 = burst)
    Merge(usize, usize),  // receiver, other
}

fn mop_alphabet() -> Vec<MOp> {
    let mut v = Vec::new();
    for i in 0..3 {
        for s in 0..4 {
            v.push(MOp::Sketch(i, s));
        }
    }
    for i in 0..3 {
        for j in 0..3 {
            if i != j {
                v.push(MOp::Merge(i, j));
            }
        }
    }
    v
}

fn mop_items(inst: usize, slot: usize) -> Vec<u64> {
    // instances share item 1 and 2 (forced collisions), have one own item, and one burst each (overlapping bursts)
    match slot {
        0 => vec![1],
        1 => vec![2],
        2 => vec![10 + inst as u64],
        _ => (100 + 6 * inst as u64..112 + 6 * inst as u64).collect(),
    }
}

struct MergeOut {
    sequences: u64,
    ops: u64,
    bad: Option<(String, Value)>,
    merges_with_effect: u64,
    low_positive: u64,
}

fn merge_sequences<I: Reg>(p: SetSketchParams, pname: &str, depth: usize) -> MergeOut {
    let alpha = mop_alphabet();
    let na = alpha.len();
    let m = p.get_m() as usize;
    // single-item sketches for the model
    let mut universe: BTreeSet<u64> = BTreeSet::new();
    for i in 0..3 {
        for s in 0..4 {
            universe.extend(mop_items(i, s));
        }
    }
    let singles: std::collections::BTreeMap<u64, Vec<u64>> = universe
        .iter()
        .map(|x| {
            let mut s = new_ss::<I>(p);
            s.sketch(x).unwrap();
            (*x, sig_of(&s))
        })
        .collect();
    let total: u64 = (1..=depth).map(|d| (na as u64).pow(d as u32)).sum();
    // enumerate by (length, index)
    let mut jobs: Vec<(usize, u64)> = Vec::new();
    for d in 1..=depth {
        let cnt = (na as u64).pow(d as u32);
        let chunk = 4096u64;
        let mut s = 0;
        while s < cnt {
            jobs.push((d, s));
            s += chunk;
        }
    }
    let res: Vec<(u64, u64, Option<(String, Value)>, u64, u64)> = jobs
        .par_iter()
        .map(|(d, start)| {
            let cnt = (na as u64).pow(*d as u32);
            let end = (*start + 4096).min(cnt);
            let mut nseq = 0;
            let mut nops = 0;
            let mut bad = None;
            let mut eff = 0;
            let mut lowpos = 0;
            for code in *start..end {
                let mut c = code;
                let seq: Vec<MOp> = (0..*d)
                    .map(|_| {
                        let o = alpha[(c % na as u64) as usize];
                        c /= na as u64;
                        o
                    })
                    .collect();
                nseq += 1;
                nops += *d as u64;
                let r = guarded_mut(|| {
                    let mut inst: Vec<SetSketcher<I, u64, FnvHasher>> = (0..3).map(|_| new_ss::<I>(p)).collect();
                    let mut model: Vec<BTreeSet<u64>> = vec![BTreeSet::new(); 3];
                    let mut before_est = 0.;
                    let mut before_sig: Vec<u64> = vec![];
                    let mut last_recv = 0;
                    for (si, op) in seq.iter().enumerate() {
                        let recv = match op {
                            MOp::Sketch(i, _) => *i,
                            MOp::Merge(i, _) => *i,
                        };
                        if si + 1 == seq.len() {
                            before_est = inst[recv].get_cardinal_stats().0;
                            before_sig = sig_of(&inst[recv]);
                            last_recv = recv;
                        }
                        match op {
                            MOp::Sketch(i, s) => {
                                for x in mop_items(*i, *s) {
                                    inst[*i].sketch(&x).map_err(|e| e.to_string())?;
                                    model[*i].insert(x);
                                }
                            }
                            MOp::Merge(i, j) => {
                                let (a, b) = if i < j {
                                    let (l, r) = inst.split_at_mut(*j);
                                    (&mut l[*i], &r[0])
                                } else {
                                    let (l, r) = inst.split_at_mut(*i);
                                    (&mut r[0], &l[*j])
                                };
                                a.merge(b).map_err(|e| format!("merge of same-parameter sketchers refused: {}", e))?;
                                let other = model[*j].clone();
                                model[*i].extend(other);
                            }
                        }
                    }
                    // final state of every instance against the set model
                    let mut problems: Option<String> = None;
                    for i in 0..3 {
                        let mut want = vec![0u64; m];
                        for x in &model[i] {
                            for k in 0..m {
                                want[k] = want[k].max(singles[x][k]);
                            }
                        }
                        let sig = sig_of(&inst[i]);
                        if sig != want {
                            problems = Some(format!("instance {} holds {:?}, the join over its model set {:?} is {:?}", i, sig, model[i], want));
                            break;
                        }
                        let low = inst[i].get_low_sketch();
                        let minreg = *sig.iter().min().unwrap() as i64;
                        if low > minreg {
                            problems = Some(format!("instance {} reports lowest register {} above the true minimum {}", i, low, minreg));
                            break;
                        }
                    }
                    let after_est = inst[last_recv].get_cardinal_stats().0;
                    if problems.is_none() && after_est < before_est {
                        problems = Some(format!("cardinality estimate of instance {} decreased from {} to {} on the last operation", last_recv, before_est, after_est));
                    }
                    let changed = sig_of(&inst[last_recv]) != before_sig;
                    let low_positive = (0..3).any(|i| inst[i].get_low_sketch() > 0);
                    Ok::<(Option<String>, bool, bool), String>((problems, changed, low_positive))
                });
                let (problem, changed, low_positive) = match r {
                    Ok(Ok(x)) => x,
                    Ok(Err(e)) => (Some(e), false, false),
                    Err(pn) => (Some(format!("panic: {}", pn)), false, false),
                };
                if matches!(seq.last(), Some(MOp::Merge(_, _))) && changed {
                    eff += 1;
                }
                if low_positive {
                    lowpos += 1;
                }
                if let Some(pb) = problem {
                    if bad.is_none() {
                        bad = Some((
                            format!("SetSketcher<{}> {} after {:?}: {}", I::rname(), pname, seq, pb),
                            json!({"kind": "merge-seq", "reg": I::rname(), "params": pname, "seq": seq.iter().map(|o| match o { MOp::Sketch(i, s) => json!({"sketch": [i, s]}), MOp::Merge(i, j) => json!({"merge": [i, j]}) }).collect::<Vec<_>>() }),
                        ));
                    }
                }
            }
            (nseq, nops, bad, eff, lowpos)
        })
        .collect();
    let mut out = MergeOut { sequences: 0, ops: 0, bad: None, merges_with_effect: 0, low_positive: 0 };
    for (a, b, c, d, e) in res {
        out.sequences += a;
        out.ops += b;
        if out.bad.is_none() {
            out.bad = c;
        }
        out.merges_with_effect += d;
        out.low_positive += e;
    }
    assert_eq!(out.sequences, total);
    out
}

/// commutativity, associativity, idempotence, merge = sketch of the union, on all triples of a subset family
fn merge_laws<I: Reg>(p: SetSketchParams, pname: &str) -> (u64, Option<(String, Value)>) {
    let family: Vec<Vec<u64>> = vec![
        vec![],
        vec![1],
        vec![2],
        vec![1, 2],
        vec![3, 4, 5],
        (10..22).collect(),
        (16..40).collect(),
        (100..400).collect(),
        (350..360).collect(),
        vec![1, 100, 399],
        (1000..3000).collect(),
        vec![5000],
        (0..64).collect(),
        (2999..3001).collect(),
        vec![7, 7, 7],
        (20..21).collect(),
    ];
    let mk = |items: &[u64]| {
        let mut s = new_ss::<I>(p);
        for x in items {
            s.sketch(x).unwrap();
        }
        s
    };
    let n = family.len();
    let res: Vec<(u64, Option<String>)> = (0..n * n)
        .into_par_iter()
        .map(|ab| {
            let (a, b) = (ab / n, ab % n);
            let mut cnt = 0;
            let r = guarded_mut(|| -> Option<String> {
                let mut ab1 = mk(&family[a]);
                ab1.merge(&mk(&family[b])).unwrap();
                let mut ba = mk(&family[b]);
                ba.merge(&mk(&family[a])).unwrap();
                if sig_of(&ab1) != sig_of(&ba) {
                    return Some(format!("merge not commutative for {:?} and {:?}", family[a], family[b]));
                }
                let mut direct: Vec<u64> = family[a].clone();
                direct.extend(family[b].iter());
                if sig_of(&mk(&direct)) != sig_of(&ab1) {
                    return Some(format!("merge of sketch({:?}) into sketch({:?}) differs from the sketch of the union", family[b], family[a]));
                }
                let before = sig_of(&ab1);
                let copy = mk(&direct);
                ab1.merge(&copy).unwrap();
                if sig_of(&ab1) != before {
                    return Some(format!("merge not idempotent for {:?}", direct));
                }
                // further streaming after a merge
                let mut cont = mk(&family[a]);
                cont.merge(&mk(&family[b])).unwrap();
                for x in 7000u64..7020 {
                    cont.sketch(&x).unwrap();
                }
                let mut direct2 = direct.clone();
                direct2.extend(7000u64..7020);
                if sig_of(&cont) != sig_of(&mk(&direct2)) {
                    return Some(format!("streaming after a merge differs from the sketch of the whole set ({:?} + {:?} + 20 items)", family[a], family[b]));
                }
                for c in 0..n {
                    cnt += 1;
                    let mut l = mk(&family[a]);
                    l.merge(&mk(&family[b])).unwrap();
                    l.merge(&mk(&family[c])).unwrap();
                    let mut bc = mk(&family[b]);
                    bc.merge(&mk(&family[c])).unwrap();
                    let mut r = mk(&family[a]);
                    r.merge(&bc).unwrap();
                    if sig_of(&l) != sig_of(&r) {
                        return Some(format!("merge not associative for {:?}, {:?}, {:?}", family[a], family[b], family[c]));
                    }
                }
                None
            });
            match r {
                Ok(x) => (cnt + 4, x),
                Err(p) => (cnt + 4, Some(format!("panic: {}", p))),
            }
        })
        .collect();
    let total = res.iter().map(|r| r.0).sum();
    let bad = res.into_iter().find_map(|r| r.1).map(|w| (format!("SetSketcher<{}> {}: {}", I::rname(), pname, w), json!({"kind": "laws", "reg": I::rname(), "params": pname})));
    (total, bad)
}

/// merge between different parameters must be refused and leave the receiver unchanged - in what it shows right away
/// and in what it does with the rest of its stream (compared with a sketcher that never saw the refused merge)
fn refusal<I: Reg>() -> (u64, Vec<(String, String, Value)>) {
    let ulps = |x: f64, k: i64| f64::from_bits((x.to_bits() as i64 + k) as u64);
    let mut bad = Vec::new();
    let mut n = 0;
    for base in [(1.001f64, 16u64, 20.0f64, 65534u64), (2.0, 16, 1e6, 62)] {
        let mut variants: Vec<(&str, (f64, u64, f64, u64))> = Vec::new();
        let sgn = if base.0 >= 2.0 { -1.0 } else { 1.0 }; // b stays in (1,2]
        for db in [1e-12, 1e-9, 1e-8, 1e-6, 1e-3, 0.2, 0.499] {
            variants.push(("b", (base.0 * (1. + sgn * db), base.1, base.2, base.3)));
        }
        // a few units in the last place: beyond rounding noise (relative difference >= 4 epsilon), far below 1e-12
        for k in [32i64, 1 << 10, 1 << 20] {
            variants.push(("b", (ulps(base.0, sgn as i64 * k), base.1, base.2, base.3)));
            variants.push(("a", (base.0, base.1, ulps(base.2, k), base.3)));
        }
        for m in [1u64, 15, 17, 32] {
            variants.push(("m", (base.0, m, base.2, base.3)));
        }
        for da in [1e-12, 1e-9, 1e-8, 1e-6, 1e-3, 0.5, -0.5, 1e5] {
            variants.push(("a", (base.0, base.1, base.2 * (1. + da), base.3)));
        }
        for q in [base.3 - 1, base.3 + 1, if base.3 > 100 { 62 } else { 65534 }, 3] {
            variants.push(("q", (base.0, base.1, base.2, q)));
        }
        for (field, v) in variants {
            for swap in [false, true] {
                n += 1;
                let (pr, po) = if swap { (v, base) } else { (base, v) };
                let r = guarded_mut(|| {
                    let mut recv = new_ss::<I>(SetSketchParams::new(pr.0, pr.1, pr.2, pr.3));
                    let mut twin = new_ss::<I>(SetSketchParams::new(pr.0, pr.1, pr.2, pr.3));
                    for x in 0u64..50 {
                        recv.sketch(&x).unwrap();
                        twin.sketch(&x).unwrap();
                    }
                    let mut other = new_ss::<I>(SetSketchParams::new(po.0, po.1, po.2, po.3));
                    for x in 40u64..4000 {
                        other.sketch(&x).unwrap();
                    }
                    let before = (sig_of(&recv), recv.get_nb_overflow(), recv.get_low_sketch(), recv.get_cardinal_stats().0.to_bits());
                    let res = recv.merge(&other);
                    let after = (sig_of(&recv), recv.get_nb_overflow(), recv.get_low_sketch(), recv.get_cardinal_stats().0.to_bits());
                    // the rest of the stream
                    let mut same_future = true;
                    for x in 50u64..400 {
                        recv.sketch(&x).unwrap();
                        twin.sketch(&x).unwrap();
                        if x % 50 == 49 && (sig_of(&recv), recv.get_nb_overflow(), recv.get_low_sketch()) != (sig_of(&twin), twin.get_nb_overflow(), twin.get_low_sketch()) {
                            same_future = false;
                        }
                    }
                    (res.is_err(), before == after, same_future)
                });
                let case = json!({"kind": "refusal", "field": field, "receiver": [pr.0, pr.1 as f64, pr.2, pr.3 as f64], "other": [po.0, po.1 as f64, po.2, po.3 as f64]});
                match r {
                    Err(p) => bad.push((format!("refusal-panic:{}", field), format!("merge between sketchers differing in {} ({:?} vs {:?}) panics: {}", field, pr, po, p), case)),
                    Ok((refused, unchanged, same_future)) => {
                        if !refused {
                            bad.push((format!("merge-accepted:{}", field), format!("merge between sketchers differing in {} ({:?} vs {:?}) is accepted", field, pr, po), case.clone()));
                        } else if !unchanged {
                            bad.push((format!("refused-merge-modified-receiver:{}", field), format!("merge between sketchers differing in {} ({:?} vs {:?}) changed the receiver", field, pr, po), case));
                        } else if !same_future {
                            bad.push((
                                format!("refused-merge-modified-receiver:{}", field),
                                format!("merge between sketchers differing in {} ({:?} vs {:?}) was refused and left the registers alone, but the receiver then sketches the rest of its stream differently from a sketcher that never saw the refused merge", field, pr, po),
                                case,
                            ));
                        }
                    }
                }
            }
        }
    }
    (n, bad)
}

fn param_sets(quick: bool) -> Vec<(String, SetSketchParams)> {
    let mut v = Vec::new();
    let ms: Vec<u64> = if quick { vec![1, 5, 16] } else { vec![1, 2, 5, 16, 40] };
    for &m in &ms {
        for &(b, q) in &[(1.001f64, 65534u64), (1.2, 62), (2.0, 62), (1.2, 3), (2.0, 3)] {
            v.push((format!("(b={},m={},a=20,q={})", b, m, q), SetSketchParams::new(b, m, 20., q)));
        }
    }
    v
}

pub fn run(ctx: &Ctx) -> i32 {
    let alphabet: Vec<u64> = ctx.pick((1..=10).collect(), (1..=12).collect());
    let mut execs = 0u64;
    let mut states = 0u64;
    let mut details = Vec::new();
    // ---- join: SuperMinHash
    for &m in &ctx.pick(vec![1usize, 2, 5, 16], vec![1, 2, 5, 16, 40]) {
        for (fname, o) in [("f64", join_superminhash::<f64>("f64", m, &alphabet)), ("f32", join_superminhash::<f32>("f32", m, &alphabet))] {
            execs += o.execs;
            states += o.distinct;
            if let Some((w, c)) = o.bad {
                ctx.violation(&format!("join:SuperMinHash<{}>", fname), &w, c);
            }
            details.push(json!({"part": "join", "sketcher": format!("SuperMinHash<{}> m={}", fname, m), "subsets": o.subsets, "executions": o.execs}));
        }
    }
    // ---- join at sketch sizes around 2^16, on a 4-item alphabet (all 15 subsets)
    {
        let small: Vec<u64> = vec![1, 2, 3, 4];
        for &m in &ctx.pick(vec![65_537usize], vec![65_535, 65_536, 65_537]) {
            for (fname, o) in [("f64", join_superminhash::<f64>("f64", m, &small)), ("f32", join_superminhash::<f32>("f32", m, &small))] {
                execs += o.execs;
                states += o.distinct;
                if let Some((w, c)) = o.bad {
                    ctx.violation(&format!("join:SuperMinHash<{}>", fname), &w, c);
                }
                details.push(json!({"part": "join", "sketcher": format!("SuperMinHash<{}> m={}", fname, m), "subsets": o.subsets, "executions": o.execs}));
            }
            let p = SetSketchParams::new(1.001, m as u64, 20., 65534);
            let o = join_setsketch::<u16>(p, &format!("(b=1.001,m={},a=20,q=65534)", m), &small);
            execs += o.execs;
            states += o.distinct;
            if let Some((w, c)) = o.bad {
                ctx.violation("join:SetSketcher<u16>", &w, c);
            }
            details.push(json!({"part": "join", "sketcher": format!("SetSketcher<u16> m={}", m), "subsets": o.subsets, "executions": o.execs}));
        }
    }
    // ---- join on witness pairs searched through the real f32 sketcher (rounding witnesses, level-0 collisions; c03)
    {
        let (wevals, wdetails) = crate::props::c03::same_set_streams(ctx, (crate::common::splitmix64(ctx.seed ^ 0xC05) >> 24) << 3, "join:witness-pairs");
        execs += wevals;
        details.push(json!({"part": "join on searched witness pairs", "configurations": wdetails.len()}));
    }
    // ---- join: SuperMinHash with the pass-through hasher on an alphabet that contains item 0 (hash 0)
    {
        let alpha0: Vec<u64> = (0..alphabet.len() as u64).collect();
        for &m in &[1usize, 3, 8] {
            let o = join_superminhash_h::<f64, probminhash::nohasher::NoHashHasher>("f64,NoHash", m, &alpha0);
            execs += o.execs;
            states += o.distinct;
            if let Some((w, c)) = o.bad {
                ctx.violation("join:SuperMinHash<f64,NoHash>", &w, c);
            }
            details.push(json!({"part": "join", "sketcher": format!("SuperMinHash<f64,NoHash> m={}", m), "subsets": o.subsets, "executions": o.execs}));
        }
    }
    // ---- join: SetSketch, three register types
    for (pname, p) in param_sets(ctx.quick()) {
        let outs = vec![("u16", join_setsketch::<u16>(p, &pname, &alphabet)), ("u32", join_setsketch::<u32>(p, &pname, &alphabet)), ("u8", join_setsketch::<u8>(p, &pname, &alphabet))];
        for (r, o) in outs {
            execs += o.execs;
            states += o.distinct;
            if let Some((w, c)) = o.bad {
                ctx.violation(&format!("join:SetSketcher<{}>", r), &w, c);
            }
            details.push(json!({"part": "join", "sketcher": format!("SetSketcher<{}> {}", r, pname), "subsets": o.subsets, "executions": o.execs}));
        }
    }
    // ---- merge sequences
    let depth = ctx.pick(5usize, 6);
    let mut nseq = 0u64;
    let mut effective = 0u64;
    let mut lowpos = 0u64;
    let merge_params: Vec<(String, SetSketchParams)> = vec![
        ("(b=1.001,m=4,a=20,q=65534)".into(), SetSketchParams::new(1.001, 4, 20., 65534)),
        ("(b=2,m=3,a=20,q=62)".into(), SetSketchParams::new(2.0, 3, 20., 62)),
        ("(b=1.2,m=1,a=20,q=3)".into(), SetSketchParams::new(1.2, 1, 20., 3)),
        ("(b=1.2,m=16,a=20,q=400)".into(), SetSketchParams::new(1.2, 16, 20., 400)),
    ];
    for (pname, p) in &merge_params {
        let o16 = merge_sequences::<u16>(*p, pname, depth);
        let o8 = merge_sequences::<u8>(*p, pname, depth - 1);
        for (r, o) in [("u16", o16), ("u8", o8)] {
            nseq += o.sequences;
            execs += o.sequences;
            effective += o.merges_with_effect;
            lowpos += o.low_positive;
            if let Some((w, c)) = o.bad {
                ctx.violation(&format!("merge-sequence:SetSketcher<{}>", r), &w, c);
            }
            details.push(json!({"part": "merge sequences", "sketcher": format!("SetSketcher<{}> {}", r, pname), "sequences": o.sequences, "ops": o.ops,
                "sequences_ending_in_an_effective_merge": o.merges_with_effect, "sequences_with_positive_low_sketch": o.low_positive}));
        }
    }
    {
        let p = SetSketchParams::new(1.2, 4, 20., 400);
        let mut x = new_ss::<u16>(p);
        let mut y = new_ss::<u16>(p);
        x.sketch(&1u64).unwrap();
        for v in 100u64..112 {
            y.sketch(&v).unwrap();
        }
        let before = sig_of(&x);
        x.merge(&y).unwrap();
        ctx.sample(json!({"merge_sequence": ["X.sketch(1)", "Y.sketch(burst 100..112)", "X.merge(Y)"], "X_before": before, "Y": sig_of(&y), "X_after": sig_of(&x), "X_low_sketch": x.get_low_sketch()}));
    }
    // ---- laws
    for (pname, p) in &merge_params {
        let (n, bad) = merge_laws::<u16>(*p, pname);
        execs += n;
        if let Some((w, c)) = bad {
            ctx.violation("merge-laws", &w, c);
        }
        let (n, bad) = merge_laws::<u32>(*p, pname);
        execs += n;
        if let Some((w, c)) = bad {
            ctx.violation("merge-laws", &w, c);
        }
    }
    // ---- refusal
    let (n16, bad16) = refusal::<u16>();
    let (n8, bad8) = refusal::<u8>(); // u8 registers overflow, so the overflow counter of the other side is non-zero
    let n = n16 + n8;
    execs += n;
    for (k, w, c) in bad16.into_iter().chain(bad8.into_iter()) {
        ctx.violation(&k, &w, c);
    }
    println!("C05 executions={} distinct joins={} merge sequences={} (ending in an effective merge: {}, with positive low_sketch: {}) refusal cases={}", execs, states, nseq, effective, lowpos, n);
    let coverage = json!({
        "states": states,
        "transitions": execs,
        "traces_validated_against_impl": execs,
        "samples": [
            {"join": {"sketcher": "SuperMinHash<f32> m=5", "subset": [2, 5, 9], "orders": "all 6"}},
            {"merge_sequence": ["X.sketch(1)", "Y.sketch(burst)", "X.merge(Y)", "Z.merge(X)", "Z.sketch(12)"]},
            {"refusal": {"receiver": [1.001, 16, 20.0, 65534], "other": [1.001001001, 16, 20.0, 65534]}}
        ],
        "exhaustive": true,
        "evaluations": execs,
        "distinct_nontrivial": states,
        "rule": "join: all non-empty subsets of a 10 (12) item alphabet (all orders for |S|<=4, four canonical orders above) against the position-wise min (SuperMinHash f32/f64, m in {1,2,5,16,(40)} and, on a 4-item alphabet, m = 65537 (65535, 65536), item-wise and through one slice call; also on pairs searched through the real f32 sketcher (rounding witnesses and items whose level-0 entries collide, see C03); also with the no-op hasher on an alphabet containing item 0) resp. max (SetSketcher u8/u16/u32, 5 (b,q) sets x 3-5 m) of the REAL single-item sketches, plus low_sketch <= min register; merge: ALL sequences up to depth 4 (5) over 18 ops (3 instances x {2 shared items, 1 own item, 1 overlapping burst} + 6 ordered merges) for 4 parameter sets x {u16,u8}, final state of every instance against a set model (merge = union), estimate monotone on the last op; commutativity/associativity/idempotence/merge=union/streaming-after-merge on all triples of a 16-set family incl. empty sets; refusal for 116 parameter pairs x {u16,u8 (overflowing)} registers differing in exactly one field (b or a by 32..2^20 ulp or 1e-12..1e5 relative - differences below 4 epsilon relative, which the code treats as rounding noise, are not judged; m; q), receiver unchanged at once and in how it sketches the rest of its stream (against a twin that never saw the refused merge); distinct = distinct joined sketches",
        "merge_sequences": nseq,
        "merge_depth": depth,
        "details": details,
    });
    ctx.finish(
        "model_checking",
        coverage,
        vec![
            "b or a differing by less than machine epsilon relative (one unit in the last place for b in (1,2)) is what the code treats as the same parameter; the check does not judge that band and demands refusal from 32 ulp / 1e-12 relative upwards".into(),
            "larger alphabets / deeper sequences behave like the explored ones".into(),
        ],
    )
}

pub fn replay(_ctx: &Ctx, case: &Value) -> Result<(bool, String), String> {
    match case["kind"].as_str() {
        Some("refusal") => {
            let (_, mut bad) = refusal::<u16>();
            bad.extend(refusal::<u8>().1);
            Ok((!bad.is_empty(), format!("{} refusal problems", bad.len())))
        }
        Some("join-smh") => {
            let m = case["m"].as_u64().ok_or("m")? as usize;
            let items: Vec<u64> = case["items"].as_array().ok_or("items")?.iter().map(|v| v.as_u64().unwrap_or(0)).collect();
            let mut al = items.clone();
            al.sort();
            al.dedup();
            let o = if case["float"].as_str() == Some("f32") { join_superminhash::<f32>("f32", m, &al) } else { join_superminhash::<f64>("f64", m, &al) };
            Ok((o.bad.is_some(), o.bad.map(|b| b.0).unwrap_or_else(|| "join holds".into())))
        }
        Some(_) => Err("this case is re-derived by running the check itself (complete enumeration)".into()),
        None => Err("kind".into()),
    }
}
