//! C10 — ProbOrdMinHash2 collision probability equals the order-min-hash similarity.
//! Target value by exhaustive enumeration of rankings; exchangeability of the per-(element,occurrence) race tables on
//! a block of elements (hook H4); end-to-end partition estimate on disjoint labellings.

use crate::common::{mean_se, splitmix64, Ctx};
use crate::props::c11::{occurrences, run_on, Pair};
use fnv::FnvHasher;
use probminhash::probminhasher::probordminhash2::ProbOrdMinHash2;
use rayon::prelude::*;
use serde_json::{json, Value};
use std::collections::BTreeMap;

/// exact order-min-hash similarity: probability over a uniform ranking of the union's (element, occurrence) pairs that
/// the l lowest-ranked pairs of each sequence, read in sequence order, spell the same elements.
/// Enumerates ranking prefixes restricted to the pairs that still matter (exact renormalisation).
pub fn omh_similarity(a: &[u32], b: &[u32], l: usize) -> (f64, u64) {
    let oa = occurrences(a);
    let ob = occurrences(b);
    let pa: Vec<Pair> = a.iter().zip(oa.iter()).map(|(e, o)| (*e, *o)).collect();
    let pb: Vec<Pair> = b.iter().zip(ob.iter()).map(|(e, o)| (*e, *o)).collect();
    let mut union: Vec<Pair> = pa.iter().chain(pb.iter()).cloned().collect();
    union.sort();
    union.dedup();
    let n = union.len();
    let pos_a: Vec<Option<usize>> = union.iter().map(|p| pa.iter().position(|q| q == p)).collect();
    let pos_b: Vec<Option<usize>> = union.iter().map(|p| pb.iter().position(|q| q == p)).collect();
    struct Env<'a> {
        l: usize,
        n: usize,
        a: &'a [u32],
        b: &'a [u32],
        pos_a: &'a [Option<usize>],
        pos_b: &'a [Option<usize>],
        nodes: u64,
    }
    fn rec(env: &mut Env, used: u64, sel_a: &mut Vec<usize>, sel_b: &mut Vec<usize>) -> f64 {
        env.nodes += 1;
        let need_a = sel_a.len() < env.l;
        let need_b = sel_b.len() < env.l;
        if !need_a && !need_b {
            let mut sa = sel_a.clone();
            let mut sb = sel_b.clone();
            sa.sort();
            sb.sort();
            let ta: Vec<u32> = sa.iter().map(|i| env.a[*i]).collect();
            let tb: Vec<u32> = sb.iter().map(|i| env.b[*i]).collect();
            return if ta == tb { 1. } else { 0. };
        }
        // remaining pairs that still matter: in A if A still needs pairs, in B if B does
        let cand: Vec<usize> = (0..env.n)
            .filter(|i| used & (1u64 << i) == 0 && ((need_a && env.pos_a[*i].is_some()) || (need_b && env.pos_b[*i].is_some())))
            .collect();
        if cand.is_empty() {
            return 0.;
        }
        let w = 1. / cand.len() as f64;
        let mut p = 0.;
        for i in cand {
            let (mut pushed_a, mut pushed_b) = (false, false);
            if need_a {
                if let Some(x) = env.pos_a[i] {
                    sel_a.push(x);
                    pushed_a = true;
                }
            }
            if need_b {
                if let Some(x) = env.pos_b[i] {
                    sel_b.push(x);
                    pushed_b = true;
                }
            }
            p += w * rec(env, used | (1u64 << i), sel_a, sel_b);
            if pushed_a {
                sel_a.pop();
            }
            if pushed_b {
                sel_b.pop();
            }
        }
        p
    }
    assert!(n <= 64);
    let mut env = Env { l, n, a, b, pos_a: &pos_a, pos_b: &pos_b, nodes: 0 };
    let p = rec(&mut env, 0, &mut Vec::new(), &mut Vec::new());
    (p, env.nodes)
}

/// brute force over all P! rankings (cross-check of omh_similarity for small unions)
fn omh_similarity_bruteforce(a: &[u32], b: &[u32], l: usize) -> f64 {
    let oa = occurrences(a);
    let ob = occurrences(b);
    let pa: Vec<Pair> = a.iter().zip(oa.iter()).map(|(e, o)| (*e, *o)).collect();
    let pb: Vec<Pair> = b.iter().zip(ob.iter()).map(|(e, o)| (*e, *o)).collect();
    let mut union: Vec<Pair> = pa.iter().chain(pb.iter()).cloned().collect();
    union.sort();
    union.dedup();
    let n = union.len();
    let mut perm: Vec<usize> = (0..n).collect(); // perm[i] = rank of union pair i
    let mut total = 0u64;
    let mut hits = 0u64;
    loop {
        let rank_of = |p: &Pair| perm[union.iter().position(|q| q == p).unwrap()];
        let spell = |seq: &[u32], pairs: &[Pair]| -> Vec<u32> {
            let mut idx: Vec<usize> = (0..seq.len()).collect();
            idx.sort_by_key(|i| rank_of(&pairs[*i]));
            let mut chosen: Vec<usize> = idx.into_iter().take(l).collect();
            chosen.sort();
            chosen.iter().map(|i| seq[*i]).collect()
        };
        total += 1;
        if spell(a, &pa) == spell(b, &pb) {
            hits += 1;
        }
        if !crate::common::next_permutation(&mut perm) {
            break;
        }
    }
    hits as f64 / total as f64
}

/// closed form of the order-min-hash similarity for l = 1 from the element counts alone: the lowest-ranked pair of the union
/// is common (then both sequences spell its element), or it belongs to one sequence only - that sequence spells its element e
/// and the other one spells e with probability count(e)/length, its own lowest pair being uniform among its pairs
fn omh_l1_from_counts(ca: &BTreeMap<u32, u64>, cb: &BTreeMap<u32, u64>) -> f64 {
    let la: u64 = ca.values().sum();
    let lb: u64 = cb.values().sum();
    let mut elems: Vec<u32> = ca.keys().chain(cb.keys()).cloned().collect();
    elems.sort();
    elems.dedup();
    let get = |m: &BTreeMap<u32, u64>, e: u32| *m.get(&e).unwrap_or(&0) as f64;
    let union: f64 = elems.iter().map(|e| get(ca, *e).max(get(cb, *e))).sum();
    let mut p = 0.;
    for &e in &elems {
        let (x, y) = (get(ca, e), get(cb, e));
        let mn = x.min(y);
        p += mn / union;
        p += (x - mn) / union * (y / lb as f64);
        p += (y - mn) / union * (x / la as f64);
    }
    p
}

fn runs(counts: &[(u32, u64)]) -> Vec<u32> {
    counts.iter().flat_map(|(e, c)| std::iter::repeat(*e).take(*c as usize)).collect()
}

struct PairCase {
    name: &'static str,
    a: Vec<u32>,
    b: Vec<u32>,
    max_l: usize,
    /// additional large values of l, with the target taken from the closed form for order-consistent sequences of
    /// distinct elements: the l lowest-ranked pairs of the union must all be common, C(|A∩B|, l) / C(|A∪B|, l)
    big_l: Vec<usize>,
}

fn binom_ratio(c: usize, u: usize, l: usize) -> f64 {
    if l > c {
        return 0.;
    }
    (0..l).map(|i| (c - i) as f64 / (u - i) as f64).product()
}

/// target for a case: ranking enumeration for small l, closed form (cross-checked against the enumeration) for large l
fn target_of(c: &PairCase, l: usize) -> (f64, u64) {
    if c.big_l.contains(&l) {
        let common = c.a.iter().filter(|x| c.b.contains(x)).count();
        let union = c.a.len() + c.b.len() - common;
        (binom_ratio(common, union, l), 0)
    } else {
        omh_similarity(&c.a, &c.b, l)
    }
}

fn catalogue() -> Vec<PairCase> {
    let v = |x: &[u32]| x.to_vec();
    vec![
        PairCase { name: "identical", a: v(&[0, 1, 2, 3, 4]), b: v(&[0, 1, 2, 3, 4]), max_l: 5, big_l: vec![] },
        PairCase { name: "reversed", a: v(&[0, 1, 2, 3, 4]), b: v(&[4, 3, 2, 1, 0]), max_l: 5, big_l: vec![] },
        PairCase { name: "shift1", a: v(&[0, 1, 2, 3, 4, 5]), b: v(&[1, 2, 3, 4, 5, 6]), max_l: 5, big_l: vec![] },
        PairCase { name: "shift3", a: v(&[0, 1, 2, 3, 4, 5]), b: v(&[3, 4, 5, 6, 7, 8]), max_l: 3, big_l: vec![] },
        PairCase { name: "one-edit", a: v(&[0, 1, 2, 3, 4, 5]), b: v(&[0, 1, 9, 3, 4, 5]), max_l: 5, big_l: vec![] },
        PairCase { name: "common-prefix", a: v(&[0, 1, 2, 3, 7, 8]), b: v(&[0, 1, 2, 3, 5, 6]), max_l: 3, big_l: vec![] },
        PairCase { name: "disjoint", a: v(&[0, 1, 2]), b: v(&[3, 4, 5]), max_l: 3, big_l: vec![] },
        PairCase { name: "suite-pattern-1", a: v(&[0, 0, 1, 2]), b: v(&[0, 1, 1, 2]), max_l: 3, big_l: vec![] },
        PairCase { name: "alternating", a: v(&[0, 1, 0, 1]), b: v(&[1, 0, 1, 0]), max_l: 3, big_l: vec![] },
        PairCase { name: "repeat-block", a: v(&[0, 0, 0, 1]), b: v(&[0, 1, 1, 1]), max_l: 3, big_l: vec![] },
        // a run of equal elements followed, after another element, by the same element again (occurrence numbers must keep counting)
        PairCase { name: "run-then-return", a: v(&[0, 0, 1, 0]), b: v(&[0, 0, 1]), max_l: 3, big_l: vec![] },
        PairCase { name: "run-then-return-2", a: v(&[0, 0, 1, 0, 2]), b: v(&[0, 1, 0, 0, 2]), max_l: 3, big_l: vec![] },
        PairCase { name: "two-runs-return", a: v(&[0, 0, 1, 1, 0, 1]), b: v(&[0, 1, 0, 1, 0, 1]), max_l: 3, big_l: vec![] },
        PairCase { name: "transposition", a: v(&[0, 1, 2, 3]), b: v(&[0, 2, 1, 3]), max_l: 3, big_l: vec![] },
        PairCase { name: "suite-pattern-2", a: v(&[0, 1, 2, 3, 4, 0, 1, 2, 3, 2, 4, 5]), b: v(&[0, 1, 2, 6, 4, 0, 7, 1, 2, 3, 2, 4, 5]), max_l: 2, big_l: vec![] },
        PairCase { name: "prefix-of", a: v(&[0, 1, 2]), b: v(&[0, 1, 2, 3, 4, 5]), max_l: 3, big_l: vec![] },
        PairCase { name: "20 distinct, shifted by 2", a: (0..20).collect(), b: (2..22).collect(), max_l: 2, big_l: vec![8, 15] },
        PairCase { name: "40 distinct, shifted by 5", a: (0..40).collect(), b: (5..45).collect(), max_l: 1, big_l: vec![15] },
        PairCase { name: "16 distinct, one deleted", a: (0..16).collect(), b: (0..16).filter(|x| *x != 7).collect(), max_l: 2, big_l: vec![8, 15] },
    ]
}

/// the same with the pass-through hasher and labels whose hashes are consecutive integers (pre-hashed data):
/// NoHashHasher reads the 8 bytes of a u64 big-endian, so the label is the byte-swapped integer
fn empirical_nohash(case: &PairCase, l: usize, m: usize, t: u64, base: u64) -> Result<Vec<f64>, String> {
    use probminhash::nohasher::NoHashHasher;
    let nsym = case.a.iter().chain(case.b.iter()).max().map(|x| *x as u64 + 1).unwrap_or(1);
    let nchunks = (t + 255) / 256;
    let chunks: Vec<Result<Vec<f64>, String>> = (0..nchunks)
        .into_par_iter()
        .map(|ci| {
            crate::common::guarded_mut(|| {
                let mut h = ProbOrdMinHash2::<NoHashHasher>::new(m as u32, l);
                let mut out = Vec::new();
                for tt in (ci * 256)..((ci + 1) * 256).min(t) {
                    let o = base.wrapping_add(tt * nsym);
                    let sa: Vec<u64> = case.a.iter().map(|s| (o + *s as u64).swap_bytes()).collect();
                    let sb: Vec<u64> = case.b.iter().map(|s| (o + *s as u64).swap_bytes()).collect();
                    let ha = h.hash_set(&sa);
                    let hb = h.hash_set(&sb);
                    out.push(ha.iter().zip(hb.iter()).filter(|(x, y)| x == y).count() as f64 / m as f64);
                }
                out
            })
        })
        .collect();
    let mut v = Vec::with_capacity(t as usize);
    for c in chunks {
        v.extend(c.map_err(|p| format!("panic: {}", p))?);
    }
    Ok(v)
}

/// when set, every instance is reseeded through the public change_rng_seed() before use and again every 64 labellings
/// (as the crate's own tests do between trials); the oracle does not depend on the seed
static RESEED: std::sync::atomic::AtomicBool = std::sync::atomic::AtomicBool::new(false);

/// fraction of equal positions for T disjoint labellings of the symbols
fn empirical(case: &PairCase, l: usize, m: usize, t: u64, base: u64) -> Result<Vec<f64>, String> {
    let nsym = case.a.iter().chain(case.b.iter()).max().map(|x| *x as u64 + 1).unwrap_or(1);
    let nchunks = (t + 255) / 256;
    let chunks: Vec<Result<Vec<f64>, String>> = (0..nchunks)
        .into_par_iter()
        .map(|ci| {
            let ts: Vec<u64> = (ci * 256..((ci + 1) * 256).min(t)).collect();
            crate::common::guarded_mut(|| {
                let mut h = ProbOrdMinHash2::<FnvHasher>::new(m as u32, l);
                let reseed = RESEED.load(std::sync::atomic::Ordering::Relaxed);
                if reseed {
                    h.change_rng_seed();
                }
                let mut out = Vec::with_capacity(ts.len());
                for tt in ts {
                    if reseed && tt % 64 == 63 {
                        h.change_rng_seed();
                    }
                    let o = base.wrapping_add(tt * nsym);
                    let sa: Vec<u64> = case.a.iter().map(|s| o + *s as u64).collect();
                    let sb: Vec<u64> = case.b.iter().map(|s| o + *s as u64).collect();
                    let ha = h.hash_set(&sa);
                    let hb = h.hash_set(&sb);
                    let eq = ha.iter().zip(hb.iter()).filter(|(x, y)| x == y).count();
                    out.push(eq as f64 / m as f64);
                }
                out
            })
        })
        .collect();
    let mut v = Vec::with_capacity(t as usize);
    for c in chunks {
        v.extend(c.map_err(|p| format!("panic: {}", p))?);
    }
    Ok(v)
}

// ------------------------------------------------------------------------------------------------
// exchangeability of race tables

struct Tables {
    /// t[occ-1][element index][position]
    t: Vec<Vec<Vec<f64>>>,
}

fn block_tables(m: usize, n: u64, base: u64, maxocc: usize) -> Result<Tables, String> {
    let per: Vec<Result<Vec<Vec<f64>>, String>> = (0..n)
        .into_par_iter()
        .map(|i| {
            let e = base + i;
            let seq = vec![e as u32; maxocc];
            // element labels are u32 here so that c11::run_on can decode; the block is over the u32 space
            let mut h = ProbOrdMinHash2::<FnvHasher>::new(m as u32, maxocc);
            let r = crate::common::guarded_mut(|| run_on(&mut h, m, maxocc, &seq)).map_err(|p| format!("panic: {}", p))??;
            let mut tab = vec![vec![f64::NAN; m]; maxocc];
            for k in 0..m {
                for ((_, occ), bits) in &r.races[k] {
                    tab[*occ as usize - 1][k] = f64::from_bits(*bits);
                }
            }
            Ok(tab)
        })
        .collect();
    let mut t = vec![Vec::with_capacity(n as usize); maxocc];
    for p in per {
        let tab = p?;
        for (o, row) in tab.into_iter().enumerate() {
            if row.iter().any(|x| x.is_nan()) {
                return Err("incomplete race table".into());
            }
            t[o].push(row);
        }
    }
    Ok(Tables { t })
}

fn two_sample_ks(a: &mut Vec<f64>, b: &mut Vec<f64>) -> f64 {
    a.sort_by(|x, y| x.partial_cmp(y).unwrap());
    b.sort_by(|x, y| x.partial_cmp(y).unwrap());
    let (na, nb) = (a.len(), b.len());
    let (mut i, mut j) = (0, 0);
    let mut d: f64 = 0.;
    while i < na && j < nb {
        if a[i] <= b[j] {
            i += 1;
        } else {
            j += 1;
        }
        d = d.max((i as f64 / na as f64 - j as f64 / nb as f64).abs());
    }
    d * ((na * nb) as f64 / (na + nb) as f64).sqrt()
}

fn ranks(v: &[f64]) -> Vec<f64> {
    let mut idx: Vec<usize> = (0..v.len()).collect();
    idx.sort_by(|a, b| v[*a].partial_cmp(&v[*b]).unwrap());
    let mut r = vec![0.; v.len()];
    for (rank, i) in idx.into_iter().enumerate() {
        r[i] = rank as f64;
    }
    r
}

fn spearman(a: &[f64], b: &[f64]) -> f64 {
    let (ra, rb) = (ranks(a), ranks(b));
    let n = a.len() as f64;
    let mean = (n - 1.) / 2.;
    let mut sxy = 0.;
    let mut sxx = 0.;
    for i in 0..a.len() {
        sxy += (ra[i] - mean) * (rb[i] - mean);
        sxx += (ra[i] - mean) * (ra[i] - mean);
    }
    sxy / sxx
}

fn exchangeability(ctx: &Ctx, m: usize, n: u64, base: u64, details: &mut Vec<Value>) -> Result<u64, String> {
    let maxocc = 3;
    let tb = block_tables(m, n, base, maxocc)?;
    let case = json!({"kind": "tables", "m": m, "n": n, "base": base});
    // (a) smallest race value identical across occurrences
    let minv = |row: &Vec<f64>| row.iter().cloned().fold(f64::INFINITY, f64::min);
    let mut same_min = 0u64;
    let mut same_any = 0u64;
    for i in 0..n as usize {
        for (o1, o2) in [(0, 1), (0, 2), (1, 2)] {
            if minv(&tb.t[o1][i]).to_bits() == minv(&tb.t[o2][i]).to_bits() {
                same_min += 1;
            }
            for k in 0..m {
                if tb.t[o1][i][k].to_bits() == tb.t[o2][i][k].to_bits() {
                    same_any += 1;
                }
            }
        }
    }
    if same_min > 0 || same_any > 0 {
        ctx.violation(
            "race-values-shared-across-occurrences",
            &format!(
                "m={}: among {} elements, {} (element, occurrence pair) combinations have a bit-identical smallest race value and {} bit-identical values at the same position: occurrences of one element do not race independently",
                m, n, same_min, same_any
            ),
            case.clone(),
        );
    }
    // (b) P(x_(e,1)[k] < x_(e,2)[k]) = 1/2, (c) same law across occurrences, (e) no rank correlation between occurrences
    let mut worst_half: f64 = 0.;
    let mut worst_ks: f64 = 0.;
    let mut worst_rho: f64 = 0.;
    for k in 0..m {
        for (o1, o2) in [(0usize, 1usize), (0, 2), (1, 2)] {
            let less = (0..n as usize).filter(|i| tb.t[o1][*i][k] < tb.t[o2][*i][k]).count() as f64;
            let z = (less - n as f64 / 2.) / (n as f64 / 4.).sqrt();
            worst_half = worst_half.max(z.abs());
            let mut a: Vec<f64> = (0..n as usize).map(|i| tb.t[o1][i][k]).collect();
            let mut b: Vec<f64> = (0..n as usize).map(|i| tb.t[o2][i][k]).collect();
            let rho = spearman(&a, &b) * (n as f64).sqrt();
            worst_rho = worst_rho.max(rho.abs());
            let ks = two_sample_ks(&mut a, &mut b);
            worst_ks = worst_ks.max(ks);
        }
    }
    // (f) the smallest race value of an (element, occurrence) pair - the race's starting point - has the same law for every
    // occurrence: sign test and two-sample KS on the per-pair minima (a distortion of the first point only is diluted
    // by 1/m in the per-position statistics above)
    let mut worst_min_half: f64 = 0.;
    let mut worst_min_ks: f64 = 0.;
    for (o1, o2) in [(0usize, 1usize), (0, 2), (1, 2)] {
        let mut a: Vec<f64> = (0..n as usize).map(|i| minv(&tb.t[o1][i])).collect();
        let mut b: Vec<f64> = (0..n as usize).map(|i| minv(&tb.t[o2][i])).collect();
        let less = a.iter().zip(b.iter()).filter(|(x, y)| x < y).count() as f64;
        worst_min_half = worst_min_half.max(((less - n as f64 / 2.) / (n as f64 / 4.).sqrt()).abs());
        worst_min_ks = worst_min_ks.max(two_sample_ks(&mut a, &mut b));
    }
    worst_half = worst_half.max(worst_min_half);
    worst_ks = worst_ks.max(worst_min_ks);
    // (d) same law across elements: even vs odd elements, occurrence 1; and across positions
    let mut worst_ks_el: f64 = 0.;
    for k in 0..m {
        let mut a: Vec<f64> = (0..n as usize).filter(|i| i % 2 == 0).map(|i| tb.t[0][i][k]).collect();
        let mut b: Vec<f64> = (0..n as usize).filter(|i| i % 2 == 1).map(|i| tb.t[0][i][k]).collect();
        worst_ks_el = worst_ks_el.max(two_sample_ks(&mut a, &mut b));
        if k > 0 {
            let mut a: Vec<f64> = (0..n as usize).map(|i| tb.t[0][i][0]).collect();
            let mut b: Vec<f64> = (0..n as usize).map(|i| tb.t[1][i][k]).collect();
            worst_ks_el = worst_ks_el.max(two_sample_ks(&mut a, &mut b));
        }
    }
    details.push(json!({"m": m, "elements": n, "identical_min_across_occurrences": same_min, "identical_values_same_position": same_any,
        "worst_|z|_P(occ_i<occ_j)=1/2": worst_half, "worst_sqrtN_KS_between_occurrences": worst_ks, "worst_sqrtN_spearman_between_occurrences": worst_rho,
        "worst_sqrtN_KS_between_elements_or_positions": worst_ks_el}));
    println!(
        "C10 tables m={} n={} same-min={} same-value={} worst z(1/2)={:.2} KS(occ)={:.2} rho*sqrtN={:.2} KS(elem/pos)={:.2}",
        m, n, same_min, same_any, worst_half, worst_ks, worst_rho, worst_ks_el
    );
    // the confirm step for statistical exceedances is done by the caller on a second, larger block
    let mut exceed = Vec::new();
    if worst_half > 6. {
        exceed.push(format!("P(occ_i < occ_j) differs from 1/2 by {:.1} sigma", worst_half));
    }
    if worst_ks > 3.4 {
        exceed.push(format!("law differs between occurrences (sqrt(N) KS = {:.2})", worst_ks));
    }
    if worst_rho > 6. {
        exceed.push(format!("race values of different occurrences are rank-correlated ({:.1} sigma)", worst_rho));
    }
    if worst_ks_el > 3.4 {
        exceed.push(format!("law differs between elements or positions (sqrt(N) KS = {:.2})", worst_ks_el));
    }
    if !exceed.is_empty() {
        return Err(format!("EXCEED {}", exceed.join("; ")));
    }
    Ok(n * maxocc as u64)
}

pub fn run(ctx: &Ctx) -> i32 {
    let base = (splitmix64(ctx.seed ^ 0xC10) >> 40) << 8; // fits in u32 blocks for the table runs
    let mut evals = 0u64;
    // ---- target function cross-check: prefix enumeration vs brute force over all P! rankings
    let mut target_nodes = 0u64;
    let mut crosschecked = 0u64;
    for c in catalogue() {
        let mut u: Vec<Pair> = c.a.iter().zip(occurrences(&c.a)).map(|(e, o)| (*e, o)).chain(c.b.iter().zip(occurrences(&c.b)).map(|(e, o)| (*e, o))).collect();
        u.sort();
        u.dedup();
        if u.len() <= ctx.pick(8, 9) {
            for l in 1..=c.max_l.min(c.a.len()).min(c.b.len()) {
                let (p, nodes) = omh_similarity(&c.a, &c.b, l);
                target_nodes += nodes;
                let q = omh_similarity_bruteforce(&c.a, &c.b, l);
                crosschecked += 1;
                if (p - q).abs() > 1e-12 {
                    println!("ENGINE-ERROR C10 target function disagrees with brute force on {} l={}: {} vs {}", c.name, l, p, q);
                    return 2;
                }
            }
        }
    }
    // closed form used for large l, validated against the ranking enumeration where both are feasible
    for c in catalogue().iter().filter(|c| !c.big_l.is_empty()) {
        for l in 1..=c.max_l {
            let common = c.a.iter().filter(|x| c.b.contains(x)).count();
            let union = c.a.len() + c.b.len() - common;
            let (p, nodes) = omh_similarity(&c.a, &c.b, l);
            target_nodes += nodes;
            crosschecked += 1;
            if (p - binom_ratio(common, union, l)).abs() > 1e-12 {
                println!("ENGINE-ERROR C10 closed-form target disagrees with the enumeration on {} l={}", c.name, l);
                return 2;
            }
        }
    }
    // ---- exchangeability of race tables on a block
    let mut tdetails = Vec::new();
    let n_tab: u64 = ctx.pick(1 << 19, 1 << 21);
    for &m in &[4usize, 16] {
        match exchangeability(ctx, m, n_tab, base, &mut tdetails) {
            Ok(n) => evals += n,
            Err(e) if e.starts_with("EXCEED") => {
                // confirm on a fresh block four times larger
                match exchangeability(ctx, m, n_tab * 4, base + (1 << 24), &mut tdetails) {
                    Err(e2) if e2.starts_with("EXCEED") => ctx.violation(
                        &format!("race-tables-not-exchangeable:m={}", m),
                        &format!("m={}: {} (confirmed on a 4x larger fresh block: {})", m, &e[7..], &e2[7..]),
                        json!({"kind": "tables", "m": m, "n": n_tab * 4, "base": base + (1 << 24)}),
                    ),
                    Err(e2) => {
                        println!("ENGINE-ERROR C10 {}", e2);
                        return 2;
                    }
                    Ok(_) => ctx.note(format!("m={} table statistic exceedance not confirmed on the larger block: {}", m, e)),
                }
                evals += n_tab * 15;
            }
            Err(e) => {
                ctx.violation("race-table-extraction", &e, json!({"kind": "tables", "m": m, "n": n_tab, "base": base}));
            }
        }
    }
    // ---- end-to-end partition
    let t: u64 = ctx.pick(20_000, 400_000);
    let ms: Vec<usize> = vec![1, 4, 16, 64];
    let mut edetails = Vec::new();
    let mut maxz: f64 = 0.;
    let mut configs = 0u64;
    for c in catalogue() {
        for l in [1usize, 2, 3, 5, 8, 15] {
            if (l > c.max_l && !c.big_l.contains(&l)) || l > c.a.len() || l > c.b.len() {
                continue;
            }
            let (target, nodes) = target_of(&c, l);
            target_nodes += nodes;
            for &m in &ms {
                configs += 1;
                let tt = (t * 16 / (m as u64).max(16)).max(2000);
                let emp = match empirical(&c, l, m, tt, (base << 8) + (configs << 36)) {
                    Ok(v) => v,
                    Err(e) => {
                        ctx.violation("hash_set-panic", &format!("{} l={} m={}: {}", c.name, l, m, e), json!({"kind": "e2e", "name": c.name, "l": l, "m": m, "t": tt, "base": ((base << 8) + (configs << 36)).to_string()}));
                        continue;
                    }
                };
                evals += 2 * tt;
                let (mean, se0) = mean_se(&emp);
                let se = se0.max((target * (1. - target) / (tt as f64 * m as f64)).sqrt()).max(1e-9);
                let z = (mean - target) / se;
                maxz = maxz.max(z.abs());
                let exact_case = target == 0. || target == 1.;
                let mut bad = if exact_case { (mean - target).abs() > 1e-12 } else { z.abs() > 6. };
                let mut z2 = f64::NAN;
                if bad && !exact_case {
                    // confirm on a fresh block four times larger
                    let base2 = (base << 8) + (configs << 36) + (1u64 << 35);
                    if let Ok(emp2) = empirical(&c, l, m, tt * 4, base2) {
                        evals += 8 * tt;
                        let (mean2, se2) = mean_se(&emp2);
                        z2 = (mean2 - target) / se2.max(1e-9);
                        bad = z2.abs() > 6. && z2.signum() == z.signum();
                    }
                }
                if bad {
                    ctx.violation(
                        &format!("collision-probability:{}:l={}", c.name, l),
                        &format!(
                            "sequences {:?} / {:?}, l={}, m={}: mean fraction of equal positions {:.5} over {} labellings, order-min-hash similarity {:.5} (z = {:.1}, confirm z = {:.1})",
                            c.a, c.b, l, m, mean, tt, target, z, z2
                        ),
                        json!({"kind": "e2e", "name": c.name, "l": l, "m": m, "t": tt, "base": ((base << 8) + (configs << 36)).to_string()}),
                    );
                }
                if configs % 41 == 3 {
                    ctx.sample(json!({"pair": c.name, "a": c.a, "b": c.b, "l": l, "m": m, "labellings": tt, "target_from_ranking_enumeration": target, "mean_fraction_equal": mean, "z": z}));
                }
                edetails.push(json!({"pair": c.name, "l": l, "m": m, "labellings": tt, "target": target, "mean": mean, "se": se, "z": z}));
            }
        }
    }
    // instances reseeded through change_rng_seed(): pairs in which one sequence has exactly l elements, and two others
    RESEED.store(true, std::sync::atomic::Ordering::Relaxed);
    for c in catalogue().iter().filter(|c| ["prefix-of", "run-then-return", "disjoint", "suite-pattern-1", "transposition"].contains(&c.name)) {
        for l in 1..=c.max_l.min(4) {
            if l > c.a.len().min(c.b.len()) {
                continue;
            }
            let (target, _) = omh_similarity(&c.a, &c.b, l);
            for &m in &[1usize, 8] {
                configs += 1;
                let tt = 20_000u64;
                let b0 = (base << 8) + (configs << 36);
                let emp = match empirical(c, l, m, tt, b0) {
                    Ok(v) => v,
                    Err(e) => {
                        ctx.violation("hash_set-panic:reseeded", &format!("{} l={} m={} after change_rng_seed(): {}", c.name, l, m, e), json!({"kind": "e2e-reseeded", "name": c.name, "l": l, "m": m}));
                        continue;
                    }
                };
                evals += 2 * tt;
                let (mean, se0) = mean_se(&emp);
                let se = se0.max((target * (1. - target) / (tt as f64 * m as f64)).sqrt()).max(1e-9);
                let z = (mean - target) / se;
                let exact_case = target == 0. || target == 1.;
                let mut bad = if exact_case { (mean - target).abs() > 1e-12 } else { z.abs() > 6. };
                let mut z2 = f64::NAN;
                if bad && !exact_case {
                    if let Ok(emp2) = empirical(c, l, m, tt * 4, b0 + (1u64 << 35)) {
                        evals += 8 * tt;
                        let (mean2, se2) = mean_se(&emp2);
                        z2 = (mean2 - target) / se2.max(1e-9);
                        bad = z2.abs() > 6. && z2.signum() == z.signum();
                    }
                }
                if bad {
                    ctx.violation(
                        &format!("collision-probability:reseeded:{}:l={}", c.name, l),
                        &format!("instances reseeded through change_rng_seed(): sequences {:?} / {:?}, l={}, m={}: mean fraction of equal positions {:.5} over {} labellings, order-min-hash similarity {:.5} (z = {:.1}, confirm z = {:.1})", c.a, c.b, l, m, mean, tt, target, z, z2),
                        json!({"kind": "e2e-reseeded", "name": c.name, "l": l, "m": m}),
                    );
                }
                edetails.push(json!({"pair": c.name, "l": l, "m": m, "labellings": tt, "target": target, "mean": mean, "se": se, "z": z, "reseeded": true}));
            }
        }
    }
    RESEED.store(false, std::sync::atomic::Ordering::Relaxed);
    // pass-through hasher, consecutive label hashes, pairs with repeated elements
    for c in catalogue().iter().filter(|c| ["suite-pattern-1", "alternating", "repeat-block"].contains(&c.name)) {
        for l in 1..=c.max_l.min(3) {
            let (target, _) = omh_similarity(&c.a, &c.b, l);
            for &m in &[1usize, 7, 16] {
                configs += 1;
                let tt = 20_000u64;
                let b0 = (base << 8) + (configs << 36);
                let run = |t: u64, b: u64| empirical_nohash(c, l, m, t, b);
                let Ok(emp) = run(tt, b0) else { continue };
                evals += 2 * tt;
                let (mean, se0) = mean_se(&emp);
                let se = se0.max((target * (1. - target) / (tt as f64 * m as f64)).sqrt()).max(1e-9);
                let z = (mean - target) / se;
                let mut bad = z.abs() > 6.;
                let mut z2 = f64::NAN;
                if bad {
                    if let Ok(e2) = run(4 * tt, b0 + (1u64 << 35)) {
                        let (m2, s2) = mean_se(&e2);
                        z2 = (m2 - target) / s2.max(1e-9);
                        bad = z2.abs() > 6. && z2.signum() == z.signum();
                    }
                }
                if bad {
                    ctx.violation(
                        &format!("collision-probability:nohash-adjacent-labels:{}:l={}", c.name, l),
                        &format!("[no-op hasher, labels with consecutive hashes] sequences {:?} / {:?}, l={}, m={}: mean fraction of equal positions {:.5} vs target {:.5} (z = {:.1}, confirm {:.1})", c.a, c.b, l, m, mean, target, z, z2),
                        json!({"kind": "e2e-nohash", "name": c.name, "l": l, "m": m, "t": tt, "base": b0.to_string()}),
                    );
                }
                edetails.push(json!({"pair": c.name, "hasher": "NoHash, consecutive label hashes", "l": l, "m": m, "labellings": tt, "target": target, "mean": mean, "se": se, "z": z}));
            }
        }
    }
    // ---- long runs: one element occurring up to 2*65537 times (occurrence numbers beyond 2^8 and 2^16), l = 1, target from
    // the closed form in the element counts (cross-checked against the ranking enumeration on all small count vectors)
    for xa in 0..=3u64 {
        for ya in 0..=3u64 {
            for xb in 0..=3u64 {
                for yb in 0..=3u64 {
                    if xa + ya == 0 || xb + yb == 0 {
                        continue;
                    }
                    let a = runs(&[(0, xa), (1, ya)]);
                    let b = runs(&[(0, xb), (1, yb)]);
                    let ca: BTreeMap<u32, u64> = [(0u32, xa), (1, ya)].into_iter().filter(|x| x.1 > 0).collect();
                    let cb: BTreeMap<u32, u64> = [(0u32, xb), (1, yb)].into_iter().filter(|x| x.1 > 0).collect();
                    let (p, nodes) = omh_similarity(&a, &b, 1);
                    target_nodes += nodes;
                    crosschecked += 1;
                    if (p - omh_l1_from_counts(&ca, &cb)).abs() > 1e-12 {
                        println!("ENGINE-ERROR C10 l=1 closed form disagrees with the enumeration on counts {:?} / {:?}", ca, cb);
                        return 2;
                    }
                }
            }
        }
    }
    let mut long_cases: Vec<(u64, u64, u64, u64)> = Vec::new(); // (a: 0^x 1^y, b: 0^z 1^w)
    for n in [255u64, 256, 257, 65535, 65536, 65537] {
        long_cases.push((2 * n, n, n, n));
        long_cases.push((n + 1, 3, n, 5));
    }
    for (x, y, z, w) in long_cases {
        let case = PairCase { name: "long-run", a: runs(&[(0, x), (1, y)]), b: runs(&[(0, z), (1, w)]), max_l: 1, big_l: vec![] };
        let ca: BTreeMap<u32, u64> = [(0u32, x), (1, y)].into_iter().collect();
        let cb: BTreeMap<u32, u64> = [(0u32, z), (1, w)].into_iter().collect();
        let target = omh_l1_from_counts(&ca, &cb);
        let m = 16usize;
        configs += 1;
        let tt = if x > 2000 { 96u64 } else { 4000 };
        let b0 = (base << 8) + (configs << 36);
        let Ok(emp) = empirical(&case, 1, m, tt, b0) else {
            ctx.violation("hash_set-panic", &format!("long runs 0^{} 1^{} / 0^{} 1^{}: panic", x, y, z, w), json!({"kind": "long-run", "x": x, "y": y, "z": z, "w": w, "t": tt, "base": b0.to_string()}));
            continue;
        };
        evals += 2 * tt;
        let (mean, se0) = mean_se(&emp);
        let se = se0.max((target * (1. - target) / (tt as f64 * m as f64)).sqrt()).max(1e-9);
        let zv = (mean - target) / se;
        let mut bad = zv.abs() > 6.;
        let mut z2 = f64::NAN;
        if bad {
            if let Ok(e2) = empirical(&case, 1, m, 4 * tt, b0 + (1u64 << 35)) {
                let (m2, s2) = mean_se(&e2);
                z2 = (m2 - target) / s2.max((target * (1. - target) / (4. * tt as f64 * m as f64)).sqrt()).max(1e-9);
                bad = z2.abs() > 6. && z2.signum() == zv.signum();
            }
        }
        if bad {
            ctx.violation(
                "collision-probability:long-run:l=1",
                &format!("sequences 0^{} 1^{} / 0^{} 1^{} (runs of one element), l=1, m={}: mean fraction of equal positions {:.5} over {} labellings, order-min-hash similarity {:.5} (z = {:.1}, confirm z = {:.1})", x, y, z, w, m, mean, tt, target, zv, z2),
                json!({"kind": "long-run", "x": x, "y": y, "z": z, "w": w, "t": tt, "base": b0.to_string()}),
            );
        }
        edetails.push(json!({"pair": format!("0^{} 1^{} / 0^{} 1^{}", x, y, z, w), "l": 1, "m": m, "labellings": tt, "target": target, "mean": mean, "se": se, "z": zv}));
    }
    println!("C10 end-to-end configs={} max|z|={:.2} target-enumeration nodes={} cross-checked targets={}", configs, maxz, target_nodes, crosschecked);
    let coverage = json!({
        "evaluations": evals,
        "distinct_nontrivial": configs + 2 * n_tab,
        "rule": "target: exact enumeration of ranking prefixes (cross-checked against all P! rankings for unions of <=8/9 pairs); tables: for every element of a block of 2^19 (2^21) the race tables of occurrences 1..3 are read from the real code (hook H4) and tested for bit-identical values across occurrences (must be 0), P(occ_i<occ_j)=1/2, equal laws across occurrences/elements/positions (two-sample KS) and zero rank correlation; end-to-end: 16 sequence pairs x l in {1,2,3,5,8,15} x m in {1,4,16,64}, T disjoint labellings each, mean fraction of equal positions within 6 standard errors of the target (exact for targets 0 and 1), confirmed on a 4x larger fresh block; the pairs with repeated elements are re-run with the no-op hasher on labels whose hashes are consecutive integers; 12 pairs of long runs of one element (0^2n 1^n / 0^n 1^n and 0^(n+1) 1^3 / 0^n 1^5 for n = 2^8-1..2^8+1, 2^16-1..2^16+1) at l=1 against the closed form in the element counts; distinct = configurations + block elements",
        "samples": [
            {"pair": {"a": [0, 1, 0, 1], "b": [1, 0, 1, 0], "l": 2, "target": omh_similarity(&[0, 1, 0, 1], &[1, 0, 1, 0], 2).0}},
            {"pair": {"a": [0, 0, 1, 2], "b": [0, 1, 1, 2], "l": 3, "target": omh_similarity(&[0, 0, 1, 2], &[0, 1, 1, 2], 3).0}},
            {"tables": {"element": base, "runs": "[e,e,e] with l=3", "m": 16}}
        ],
        "exhaustive": false,
        "exhaustive_scope": "the rankings behind every target value and all elements/labellings of the named blocks are enumerated completely; the 2^64 label space is not",
        "target_enumeration_nodes": target_nodes,
        "targets_crosschecked_by_bruteforce": crosschecked,
        "table_checks": tdetails,
        "end_to_end_configs": configs,
        "end_to_end_max_abs_z": maxz,
        "end_to_end": edetails,
    });
    ctx.finish(
        "exploration",
        coverage,
        vec![
            "by C11 (exact) every position keeps the l smallest race values; given that, exchangeability of the race tables is what the collision probability depends on (all races have weight 1)".into(),
            "statistical statements hold for the enumerated blocks with a 6 sigma / confirm-on-larger-block rule".into(),
        ],
    )
}

pub fn replay(_ctx: &Ctx, case: &Value) -> Result<(bool, String), String> {
    match case["kind"].as_str() {
        Some("e2e") => {
            let name = case["name"].as_str().ok_or("name")?;
            let l = case["l"].as_u64().ok_or("l")? as usize;
            let m = case["m"].as_u64().ok_or("m")? as usize;
            let t = case["t"].as_u64().ok_or("t")?;
            let base: u64 = case["base"].as_str().ok_or("base")?.parse().map_err(|e| format!("{}", e))?;
            let c = catalogue().into_iter().find(|c| c.name == name).ok_or("pair")?;
            let (target, _) = target_of(&c, l);
            let emp = empirical(&c, l, m, t, base)?;
            let (mean, se) = mean_se(&emp);
            let z = (mean - target) / se.max(1e-9);
            let viol = if target == 0. || target == 1. { (mean - target).abs() > 1e-12 } else { z.abs() > 6. };
            Ok((viol, format!("mean {:.6} target {:.6} z {:.2}", mean, target, z)))
        }
        Some("long-run") => {
            let g = |k: &str| case[k].as_u64().ok_or(k.to_string());
            let (x, y, z, w, t) = (g("x")?, g("y")?, g("z")?, g("w")?, g("t")?);
            let base: u64 = case["base"].as_str().ok_or("base")?.parse().map_err(|e| format!("{}", e))?;
            let c = PairCase { name: "long-run", a: runs(&[(0, x), (1, y)]), b: runs(&[(0, z), (1, w)]), max_l: 1, big_l: vec![] };
            let ca: BTreeMap<u32, u64> = [(0u32, x), (1, y)].into_iter().collect();
            let cb: BTreeMap<u32, u64> = [(0u32, z), (1, w)].into_iter().collect();
            let target = omh_l1_from_counts(&ca, &cb);
            let emp = empirical(&c, 1, 16, t, base)?;
            let (mean, se0) = mean_se(&emp);
            let se = se0.max((target * (1. - target) / (t as f64 * 16.)).sqrt()).max(1e-9);
            let zv = (mean - target) / se;
            Ok((zv.abs() > 6., format!("mean {:.6} target {:.6} z {:.2}", mean, target, zv)))
        }
        Some("e2e-nohash") => {
            let name = case["name"].as_str().ok_or("name")?;
            let l = case["l"].as_u64().ok_or("l")? as usize;
            let m = case["m"].as_u64().ok_or("m")? as usize;
            let t = case["t"].as_u64().ok_or("t")?;
            let base: u64 = case["base"].as_str().ok_or("base")?.parse().map_err(|e| format!("{}", e))?;
            let c = catalogue().into_iter().find(|c| c.name == name).ok_or("pair")?;
            let (target, _) = omh_similarity(&c.a, &c.b, l);
            let emp = empirical_nohash(&c, l, m, t, base)?;
            let (mean, se) = mean_se(&emp);
            let z = (mean - target) / se.max(1e-9);
            Ok((z.abs() > 6., format!("mean {:.6} target {:.6} z {:.2}", mean, target, z)))
        }
        Some("tables") => {
            let m = case["m"].as_u64().ok_or("m")? as usize;
            let n = case["n"].as_u64().ok_or("n")?;
            let base = case["base"].as_u64().ok_or("base")?;
            let tb = block_tables(m, n, base, 3)?;
            let mut same = 0u64;
            for i in 0..n as usize {
                for k in 0..m {
                    if tb.t[0][i][k].to_bits() == tb.t[1][i][k].to_bits() {
                        same += 1;
                    }
                }
                let minv = |row: &Vec<f64>| row.iter().cloned().fold(f64::INFINITY, f64::min);
                if minv(&tb.t[0][i]).to_bits() == minv(&tb.t[1][i]).to_bits() {
                    same += 1;
                }
            }
            Ok((same > 0, format!("{} bit-identical race values between occurrences 1 and 2", same)))
        }
        _ => Err("kind".into()),
    }
}

#[allow(dead_code)]
fn unused(_: BTreeMap<u8, u8>) {}
