//! C07 — SetSketch register collisions follow the model; Jaccard bounds hold.
//! (1) engine D: block enumeration of labellings, empirical collision fraction vs the closed-form collision model;
//! (2) engine C: deterministic sweep of the bounds function over a cardinality grid (model probability in, real bounds out);
//! (3) engine C: totality of the bounds function on every collision fraction k/m up to a bound and on float neighbourhoods.

use crate::common::{guarded, mean_se, splitmix64, Ctx};
use fnv::FnvHasher;
use probminhash::setsketcher::{SetSketchParams, SetSketcher};
use rayon::prelude::*;
use serde_json::{json, Value};
use std::hash::BuildHasherDefault;

/// collision probability of one register of SetSketch1 for |A\B|=n1, |B\A|=n2, |A∩B|=n12
pub fn collision_prob(b: f64, a: f64, q: u64, n1: f64, n2: f64, n12: f64) -> f64 {
    if n1 + n12 == 0. && n2 + n12 == 0. {
        return 1.;
    }
    let (r1, r2, r12) = (a * n1, a * n2, a * n12);
    // joint survival P(X_A > s, X_B > t), X_A = min(Y1,Y12), X_B = min(Y2,Y12)
    let surv = |s: f64, t: f64| -> f64 {
        let e = r1 * s + r2 * t + r12 * s.max(t);
        if e.is_nan() {
            0.
        } else {
            (-e).exp()
        }
    };
    let cell = |l: f64, u: f64| -> f64 {
        // P(l < X_A <= u, l < X_B <= u); u may be +inf
        let suu = if u.is_infinite() { 0. } else { surv(u, u) };
        let sul = if u.is_infinite() { 0. } else { surv(u, l) };
        let slu = if u.is_infinite() { 0. } else { surv(l, u) };
        (surv(l, l) - sul - slu + suu).max(0.)
    };
    let lnb = b.ln();
    let rtot = r1 + r2 + r12;
    let mut p = cell(1., f64::INFINITY); // register 0 (includes the lower clip)
    // cells (b^-k, b^(1-k)] whose lower end is above 80/rtot carry less than e^-80 each: skipped
    let k_first: u64 = if rtot > 80. { (((rtot / 80.).ln() / lnb).floor().max(1.)) as u64 } else { 1 };
    let mut upper = (-((k_first - 1) as f64) * lnb).exp(); // b^(1-k_first)
    let mut finished_all = true;
    let mut k = k_first;
    while k <= q {
        let lower = (-(k as f64) * lnb).exp();
        p += cell(lower, upper);
        upper = lower;
        if rtot * upper < 1e-18 {
            // everything below carries less than 1e-18 in total
            finished_all = false;
            break;
        }
        k += 1;
    }
    if finished_all {
        p += cell(0., upper); // register q+1 (upper clip)
    }
    p.min(1.)
}

/// probability that a register of a set of n items is clipped at 0 or at q+1
fn clip_prob(b: f64, a: f64, q: u64, n: f64) -> f64 {
    if n == 0. {
        return 0.;
    }
    let low = (-a * n).exp(); // X > 1
    let high = -(-a * n * (-(q as f64) * b.ln()).exp()).exp_m1(); // X <= b^-q
    low + high
}

#[derive(Clone, Debug)]
struct Cfg {
    b: f64,
    a: f64,
    q: u64,
    m: u64,
    wide: bool, // u32 registers
    n1: u64,
    n2: u64,
    n12: u64,
    t: u64,
    /// how the sketch of a set comes about: 0 one pass; 1 a merge with an incompatible sketcher (larger rate a, big set) is
    /// attempted - and refused - halfway through; 2 the sketcher was used on another set and reinit'ed; 3 two sketchers
    /// take half of the stream each and are merged
    history: u8,
}

fn sketch_range<I>(params: SetSketchParams, ranges: &[(u64, u64)], history: u8) -> Vec<I>
where
    I: num::Integer + num::ToPrimitive + num::FromPrimitive + num::Bounded + Copy + Clone + std::fmt::Debug,
{
    let newsk = |p: SetSketchParams| SetSketcher::<I, u64, FnvHasher>::new(p, BuildHasherDefault::<FnvHasher>::default());
    let mut sk = newsk(params);
    let items: Vec<u64> = ranges.iter().flat_map(|(lo, hi)| *lo..*hi).collect();
    let half = items.len() / 2;
    match history {
        1 => {
            let mut other = newsk(SetSketchParams::new(params.get_b(), params.get_m(), params.get_a() * 1e5, params.get_q()));
            for x in 0..3000u64 {
                other.sketch(&(x ^ 0x7777_0000_0000)).unwrap();
            }
            for x in &items[..half] {
                sk.sketch(x).unwrap();
            }
            assert!(sk.merge(&other).is_err());
            for x in &items[half..] {
                sk.sketch(x).unwrap();
            }
        }
        2 => {
            for x in 0..3000u64 {
                sk.sketch(&(x ^ 0x5555_0000_0000)).unwrap();
            }
            sk.reinit();
            for x in &items {
                sk.sketch(x).unwrap();
            }
        }
        3 => {
            let mut sk2 = newsk(params);
            for x in &items[..half] {
                sk.sketch(x).unwrap();
            }
            for x in &items[half..] {
                sk2.sketch(x).unwrap();
            }
            sk.merge(&sk2).unwrap();
        }
        _ => {
            for x in &items {
                sk.sketch(x).unwrap();
            }
        }
    }
    sk.get_signature().clone()
}

static ESTIMATOR_MISMATCH: std::sync::Mutex<Option<String>> = std::sync::Mutex::new(None);

/// collision fractions of T disjoint labellings of the shape, on the real sketcher
fn empirical(cfg: &Cfg, base: u64) -> Vec<f64> {
    let u = cfg.n1 + cfg.n2 + cfg.n12;
    let params = SetSketchParams::new(cfg.b, cfg.m, cfg.a, cfg.q);
    (0..cfg.t)
        .into_par_iter()
        .map(|t| {
            let o = base.wrapping_add(t * u.max(1));
            let ra = [(o, o + cfg.n1), (o + cfg.n1 + cfg.n2, o + u)];
            let rb = [(o + cfg.n1, o + cfg.n1 + cfg.n2), (o + cfg.n1 + cfg.n2, o + u)];
            // the fraction is counted here and, independently, by the crate's own estimator: they must agree exactly
            fn both<I: PartialEq + std::fmt::Debug + Sync + Send>(sa: &[I], sb: &[I]) -> f64 {
                let eq = sa.iter().zip(sb.iter()).filter(|(x, y)| x == y).count();
                let mine = eq as f64 / sa.len() as f64;
                let lib = probminhash::jaccard::get_jaccard_index_estimate(sa, sb).unwrap_or(f64::NAN);
                if lib != mine {
                    let mut g = ESTIMATOR_MISMATCH.lock().unwrap();
                    if g.is_none() {
                        *g = Some(format!("{} equal registers of {}: jaccard::get_jaccard_index_estimate returns {} instead of {}", eq, sa.len(), lib, mine));
                    }
                }
                mine
            }
            if cfg.wide {
                let sa = sketch_range::<u32>(params, &ra, cfg.history);
                let sb = sketch_range::<u32>(params, &rb, 0);
                both(&sa, &sb)
            } else {
                let sa = sketch_range::<u16>(params, &ra, cfg.history);
                let sb = sketch_range::<u16>(params, &rb, 0);
                both(&sa, &sb)
            }
        })
        .collect()
}

struct EmpOut {
    mean: f64,
    se: f64,
    p: f64,
    z: f64,
}

fn run_cfg(cfg: &Cfg, base: u64) -> EmpOut {
    let v = empirical(cfg, base);
    let (mean, se0) = mean_se(&v);
    let p = collision_prob(cfg.b, cfg.a, cfg.q, cfg.n1 as f64, cfg.n2 as f64, cfg.n12 as f64);
    // standard error floor: the binomial value, so that a degenerate sample (all equal) is not over-trusted
    let se_binom = (p * (1. - p) / (cfg.m as f64 * cfg.t as f64)).sqrt();
    let se = se0.max(se_binom).max(1e-12);
    EmpOut { mean, se, p, z: (mean - p) / se }
}

fn cfg_json(c: &Cfg) -> Value {
    json!({"b": c.b, "a": c.a, "q": c.q, "m": c.m, "wide": c.wide, "n1": c.n1, "n2": c.n2, "n12": c.n12, "t": c.t, "history": c.history})
}

fn cfg_from_json(v: &Value) -> Result<Cfg, String> {
    Ok(Cfg {
        b: v["b"].as_f64().ok_or("b")?,
        a: v["a"].as_f64().ok_or("a")?,
        q: v["q"].as_u64().ok_or("q")?,
        m: v["m"].as_u64().ok_or("m")?,
        wide: v["wide"].as_bool().ok_or("wide")?,
        n1: v["n1"].as_u64().ok_or("n1")?,
        n2: v["n2"].as_u64().ok_or("n2")?,
        n12: v["n12"].as_u64().ok_or("n12")?,
        t: v["t"].as_u64().ok_or("t")?,
        history: v["history"].as_u64().unwrap_or(0) as u8,
    })
}

fn collision_configs(quick: bool) -> Vec<Cfg> {
    let mut out = Vec::new();
    let triples: Vec<(u64, u64, u64)> = if quick {
        vec![(100, 100, 100), (0, 900, 100), (300, 300, 0), (0, 0, 500), (1, 10_000, 0), (0, 9_999, 1), (5, 3, 2), (1, 0, 0)]
    } else {
        vec![(100, 100, 100), (0, 900, 100), (300, 300, 0), (0, 0, 500), (1, 10_000, 0), (0, 9_999, 1), (5, 3, 2), (1, 0, 0), (1, 1_000_000, 0), (0, 999_999, 1), (20_000, 30_000, 50_000), (1, 1, 1)]
    };
    for &(b, q) in &[(1.001f64, 65534u64), (1.2, 400), (2.0, 62)] {
        for &m in &[1u64, 64, 4096] {
            for (ti, &(n1, n2, n12)) in triples.iter().enumerate() {
                let u = n1 + n2 + n12;
                // budget: number of labellings so that m*T register pairs ~ 4e5 (quick) / 4e6 (thorough), bounded by item count
                let pairs: u64 = if quick { 400_000 } else { 4_000_000 };
                let mut t = (pairs / m).max(16);
                let item_budget: u64 = if quick { 6_000_000 } else { 120_000_000 };
                t = t.min((item_budget / u.max(1)).max(16));
                let wide = (ti + (m as usize)) % 2 == 1;
                out.push(Cfg { b, a: 20., q, m, wide, n1, n2, n12, t, history: 0 });
            }
        }
    }
    // deliberately clipping configurations (the model covers clipping)
    for &(b, q, a) in &[(2.0f64, 3u64, 20.0f64), (1.2, 10, 20.), (2.0, 62, 0.5), (2.0, 3, 1.0), (1.2, 6, 0.5), (2.0, 1, 0.3)] {
        for &(n1, n2, n12) in &[(100u64, 100u64, 100u64), (1, 50, 5), (0, 0, 3), (1, 1, 1), (3, 2, 1), (1, 0, 1)] {
            out.push(Cfg { b, a, q, m: 64, wide: false, n1, n2, n12, t: if quick { 4000 } else { 40_000 }, history: 0 });
        }
    }
    // very large sketches (sizes that are neither small nor a multiple of a power of two): identical sets and a balanced pair
    for &m in &[140_001u64, 70_001] {
        out.push(Cfg { b: 1.001, a: 20., q: 65534, m, wide: false, n1: 0, n2: 0, n12: 40, t: 4, history: 0 });
        out.push(Cfg { b: 1.001, a: 20., q: 65534, m, wide: m > 100_000, n1: 30, n2: 30, n12: 30, t: if quick { 6 } else { 40 }, history: 0 });
    }
    // the sketch of the first set comes about through a history (refused merge halfway, reuse after reinit, merge of halves)
    for history in 1..=3u8 {
        for &(b, q) in &[(1.001f64, 65534u64), (2.0, 62)] {
            for &(n1, n2, n12) in &[(100u64, 100u64, 100u64), (300, 300, 0), (5, 3, 2)] {
                for &m in &[64u64, 1024] {
                    out.push(Cfg { b, a: 20., q, m, wide: history == 2, n1, n2, n12, t: (if quick { 200_000 } else { 2_000_000 }) / m, history });
                }
            }
        }
    }
    out
}

// ------------------------------------------------------------------------------------------------

fn b_list() -> Vec<f64> {
    vec![1. + 2f64.powi(-20), 1.0001, 1.001, 1.01, 1.1, 1.2, 1.5, 2.0]
}

fn doc_q(b: f64) -> u64 {
    // q chosen as the documentation prescribes: q >= log_b(m n a / eps) for m = 4096, n up to 1e6, a = 20, eps = 1e-6,
    // capped by what a u32 register can hold for b very close to 1
    let need = ((4096.0f64 * 1e6 * 20. / 1e-6).ln() / b.ln()).ceil();
    need.min(4.0e9) as u64
}

#[derive(Debug, Clone)]
enum BoundsRes {
    Ok(f64, f64),
    Panic(String),
}

fn bounds(b: f64, jac: f64) -> BoundsRes {
    let params = SetSketchParams::new(b, 4096, 20., 65534);
    match guarded(move || params.get_jaccard_bounds(jac)) {
        Ok((lo, hi)) => BoundsRes::Ok(lo, hi),
        Err(p) => BoundsRes::Panic(p),
    }
}

fn bounds_with(params: SetSketchParams, jac: f64) -> BoundsRes {
    match guarded(move || params.get_jaccard_bounds(jac)) {
        Ok((lo, hi)) => BoundsRes::Ok(lo, hi),
        Err(p) => BoundsRes::Panic(p),
    }
}

/// the same parameters obtained in the other public ways: dumped and reloaded, a copy, Default with its own values
fn other_params(b: f64) -> Vec<(&'static str, SetSketchParams)> {
    let mut v = Vec::new();
    let p = SetSketchParams::new(b, 4096, 20., 65534);
    let dir = std::env::temp_dir().join(format!("verif-c07-{}-{}", std::process::id(), b.to_bits()));
    let _ = std::fs::create_dir_all(&dir);
    if p.dump_json(&dir).is_ok() {
        if let Ok(r) = SetSketchParams::reload_json(&dir) {
            v.push(("reloaded from its dump", r));
        }
    }
    let _ = std::fs::remove_dir_all(&dir);
    let c = p;
    v.push(("a copy", c));
    let d = SetSketchParams::default();
    if d.get_b() == b {
        let mut d2 = d;
        d2.set_m(4096);
        v.push(("Default", d2));
    }
    v
}

/// (2) bounds bracket the true Jaccard index
fn bracket_sweep(ctx: &Ctx) -> (u64, u64, f64) {
    let grid: Vec<f64> = vec![0., 1., 2., 3., 5., 10., 30., 100., 1e3, 1e4, 1e6];
    let mut admissible = 0u64;
    let mut total = 0u64;
    let mut worst = 0.0f64;
    for &b in b_list().iter().filter(|b| **b >= 1.0001) {
        let q = doc_q(b);
        let a = 20.;
        let others = other_params(b);
        let mut reported_other = false;
        for &n1 in &grid {
            for &n2 in &grid {
                for &n12 in &grid {
                    total += 1;
                    let (na, nb) = (n1 + n12, n2 + n12);
                    if na == 0. || nb == 0. {
                        continue; // the property speaks of two sets with a Jaccard index
                    }
                    if clip_prob(b, a, q, na) >= 1e-6 || clip_prob(b, a, q, nb) >= 1e-6 {
                        continue;
                    }
                    admissible += 1;
                    let j = n12 / (n1 + n2 + n12);
                    let p = collision_prob(b, a, q, n1, n2, n12);
                    if !reported_other {
                        if let BoundsRes::Ok(lo, hi) = bounds(b, p) {
                            for (how, op) in &others {
                                let same = matches!(bounds_with(*op, p), BoundsRes::Ok(l2, h2) if (l2 - lo).abs() <= 1e-12 && (h2 - hi).abs() <= 1e-12);
                                if !same {
                                    reported_other = true;
                                    ctx.violation(
                                        "bounds-depend-on-how-the-parameters-were-obtained",
                                        &format!("b={}: get_jaccard_bounds({}) is ({}, {}) on parameters built by new() and {:?} on the same parameters {}", b, p, lo, hi, bounds_with(*op, p), how),
                                        json!({"kind": "bounds-other-params", "b": b, "jac_bits": format!("{:#x}", p.to_bits())}),
                                    );
                                }
                            }
                        }
                    }
                    match bounds(b, p) {
                        BoundsRes::Panic(msg) => {
                            let key = if msg.contains("jinf <= jsup") { "bounds-assert-rounding" } else { "bounds-panic" };
                            ctx.violation(
                                key,
                                &format!("get_jaccard_bounds({}) aborts for b={} (collision probability of cardinalities {},{},{}): {}", p, b, n1, n2, n12, msg),
                                json!({"kind": "bounds", "b": b, "jac_bits": format!("{:#x}", p.to_bits())}),
                            );
                        }
                        BoundsRes::Ok(lo, hi) => {
                            let excess = (lo - j).max(j - hi).max(0.);
                            worst = worst.max(excess);
                            if excess > 1e-4 {
                                ctx.violation(
                                    &format!("bracket:b={}", b),
                                    &format!("b={} cardinalities (|A\\B|,|B\\A|,|A∩B|)=({},{},{}): J={} outside the returned bounds [{}, {}] for collision probability {}", b, n1, n2, n12, j, lo, hi, p),
                                    json!({"kind": "bracket", "b": b, "n1": n1, "n2": n2, "n12": n12}),
                                );
                            }
                            if lo > hi + 1e-9 {
                                ctx.violation(
                                    &format!("order:b={}", b),
                                    &format!("b={} collision probability {}: lower bound {} exceeds upper bound {}", b, p, lo, hi),
                                    json!({"kind": "bounds", "b": b, "jac_bits": format!("{:#x}", p.to_bits())}),
                                );
                            }
                        }
                    }
                }
            }
        }
    }
    (total, admissible, worst)
}

/// (3) totality on every fraction k/m and on float neighbourhoods of 0 and 1
fn totality(ctx: &Ctx) -> (u64, u64) {
    let max_m: u64 = ctx.pick(2048, 12_000);
    let mut calls = 0u64;
    let mut failing = 0u64;
    for &b in &b_list() {
        // every k/m
        let res: Vec<(u64, Option<(f64, String)>, u64)> = (1..=max_m)
            .into_par_iter()
            .map(|m| {
                let mut n = 0;
                let mut first = None;
                let mut nf = 0;
                for k in 0..=m {
                    let jac = k as f64 / m as f64;
                    n += 1;
                    match bounds(b, jac) {
                        BoundsRes::Ok(lo, hi) => {
                            if !(lo <= hi + 1e-9) {
                                nf += 1;
                                if first.is_none() {
                                    first = Some((jac, format!("order: lower {} > upper {}", lo, hi)));
                                }
                            }
                        }
                        BoundsRes::Panic(p) => {
                            nf += 1;
                            if first.is_none() {
                                first = Some((jac, p));
                            }
                        }
                    }
                }
                (n, first, nf)
            })
            .collect();
        let mut extra: Vec<f64> = Vec::new();
        // bands near 1 for large m
        for &m in &[100_000u64, 1_000_000, 10_000_000, 1u64 << 32] {
            for d in 0..ctx.pick(2000u64, 5000) {
                extra.push((m - d) as f64 / m as f64);
            }
            for d in 0..200u64 {
                extra.push(d as f64 / m as f64);
            }
        }
        // floats just below 1 and just above 0
        for i in 0..4096u64 {
            extra.push(f64::from_bits(1.0f64.to_bits() - i));
            extra.push(f64::from_bits(i));
            extra.push(f64::from_bits(0.5f64.to_bits() + i));
        }
        let res2: Vec<(u64, Option<(f64, String)>, u64)> = extra
            .par_chunks(1024)
            .map(|ch| {
                let mut n = 0;
                let mut first = None;
                let mut nf = 0;
                for &jac in ch {
                    n += 1;
                    match bounds(b, jac) {
                        BoundsRes::Ok(lo, hi) => {
                            if !(lo <= hi + 1e-9) {
                                nf += 1;
                                if first.is_none() {
                                    first = Some((jac, format!("order: lower {} > upper {}", lo, hi)));
                                }
                            }
                        }
                        BoundsRes::Panic(p) => {
                            nf += 1;
                            if first.is_none() {
                                first = Some((jac, p));
                            }
                        }
                    }
                }
                (n, first, nf)
            })
            .collect();
        let mut first: Option<(f64, String)> = None;
        let mut nf = 0;
        for (n, f, k) in res.into_iter().chain(res2.into_iter()) {
            calls += n;
            nf += k;
            if first.is_none() {
                first = f;
            }
        }
        failing += nf;
        if let Some((jac, msg)) = first {
            let key = if msg.contains("jinf <= jsup") { "bounds-assert-rounding".to_string() } else if msg.starts_with("order") { format!("order:b={}", b) } else { "bounds-panic".to_string() };
            ctx.violation(
                &key,
                &format!("b={}: get_jaccard_bounds({:e}) does not return a valid interval ({} failing collision fractions for this b): {}", b, jac, nf, &msg[..msg.len().min(160)]),
                json!({"kind": "bounds", "b": b, "jac_bits": format!("{:#x}", jac.to_bits())}),
            );
        }
    }
    (calls, failing)
}

pub fn run(ctx: &Ctx) -> i32 {
    // ---- (3) and (2): deterministic sweeps
    let (calls, failing) = totality(ctx);
    println!("C07 totality: {} calls, {} failing", calls, failing);
    let (total, admissible, worst) = bracket_sweep(ctx);
    println!("C07 bracket sweep: {} grid points, {} admissible, worst excess {:.3e}", total, admissible, worst);
    // ---- (1) collisions
    let base = splitmix64(ctx.seed ^ 0xC07) >> 8;
    let cfgs = collision_configs(ctx.quick());
    let mut details = Vec::new();
    let mut pairs = 0u64;
    let mut maxz = 0.0f64;
    for (i, cfg) in cfgs.iter().enumerate() {
        let o = run_cfg(cfg, base.wrapping_add((i as u64) << 40));
        pairs += cfg.m * cfg.t;
        maxz = maxz.max(o.z.abs());
        let mut confirmed = false;
        if o.z.abs() > 6. {
            // confirm on a fresh, disjoint block four times larger
            let mut c2 = cfg.clone();
            c2.t *= 4;
            let o2 = run_cfg(&c2, base.wrapping_add(((i as u64) << 40) + (1u64 << 39)));
            pairs += c2.m * c2.t;
            if o2.z.abs() > 6. && o2.z.signum() == o.z.signum() {
                confirmed = true;
                ctx.violation(
                    &format!("collision:b={}:m={}:{}-{}-{}:q={}", cfg.b, cfg.m, cfg.n1, cfg.n2, cfg.n12, cfg.q),
                    &format!(
                        "collision fraction {:.6} (then {:.6} on a 4x larger fresh block) vs model {:.6}: z = {:.1} / {:.1}; config {:?}",
                        o.mean, o2.mean, o.p, o.z, o2.z, cfg
                    ),
                    json!({"kind": "collision", "cfg": cfg_json(&c2), "base": base.wrapping_add(((i as u64) << 40) + (1u64 << 39)).to_string()}),
                );
            } else {
                ctx.note(format!("collision config {:?}: |z|={:.1} not confirmed on the larger block (z={:.1})", cfg, o.z, o2.z));
            }
        }
        if i % 23 == 4 {
            ctx.sample(json!({"collision_cfg": cfg_json(cfg), "block_base": base.wrapping_add((i as u64) << 40).to_string(), "model_p": o.p, "empirical": o.mean, "z": o.z}));
        }
        details.push(json!({"cfg": cfg_json(cfg), "model_p": o.p, "empirical": o.mean, "se": o.se, "z": o.z, "confirmed_violation": confirmed}));
    }
    // with a trace-level logger installed (log macros evaluate their arguments only then): every k/m for m <= 48, all bases
    {
        let bad = crate::common::with_trace_logging(|| {
            for &b in &b_list() {
                for m in 1..=48u64 {
                    for k in 0..=m {
                        let jac = k as f64 / m as f64;
                        match bounds(b, jac) {
                            BoundsRes::Ok(lo, hi) if lo <= hi + 1e-9 => {}
                            BoundsRes::Ok(lo, hi) => return Some(format!("b={} jac={}: lower {} > upper {}", b, jac, lo, hi)),
                            BoundsRes::Panic(p) => return Some(format!("b={} jac={}: {}", b, jac, p)),
                        }
                    }
                }
            }
            None
        });
        if let Some(w) = bad {
            ctx.violation("totality:logging", &format!("get_jaccard_bounds with a trace-level logger installed: {}", w), json!({"kind": "logging"}));
        }
    }
    if let Some(w) = ESTIMATOR_MISMATCH.lock().unwrap().clone() {
        ctx.violation("collision-fraction:estimator-disagrees", &format!("the fraction of equal registers counted directly and by the crate's estimator differ: {}", w), json!({"kind": "estimator"}));
    }
    println!("C07 collisions: {} configurations, {} register pairs, max |z| = {:.2}", cfgs.len(), pairs, maxz);
    let coverage = json!({
        "evaluations": calls + admissible + pairs,
        "distinct_nontrivial": calls + admissible,
        "rule": "(3) totality: every collision fraction k/m for m<=2048 (12000) plus bands near 0 and 1 for m up to 2^32 and 3x4096 neighbouring floats, for 8 values of b in (1,2]: the real get_jaccard_bounds must return with lo<=hi+1e-9 (each k/m,b is a distinct case); (2) bracket: all triples over {0,1,2,3,5,10,30,100,1e3,1e4,1e6}^3 x 8 b admissible by the clip precondition: model collision probability in, real bounds out, lo-1e-4<=J<=hi+1e-4; (1) collisions: T disjoint labellings of each set shape by consecutive identifiers of a seeded block, real sketcher, mean collision fraction vs the closed-form model within 6 standard errors, confirmed on a 4x larger fresh block before reporting; 36 of the configurations build the first sketch through a history (a merge with an incompatible sketcher attempted and refused halfway through the stream, reuse after reinit, merge of two half-stream sketchers); 4 configurations use sketches of 70 001 and 140 001 registers; in every run the fraction counted by the harness must equal the one returned by jaccard::get_jaccard_index_estimate",
        "samples": [
            {"totality": {"b": 1.001, "jac": "999976/1000000"}},
            {"bracket": {"b": 1.2, "n1": 100, "n2": 1000, "n12": 30}},
            {"collision": cfg_json(&cfgs[0])}
        ],
        "exhaustive": false,
        "exhaustive_scope": "parts (2) and (3) enumerate their stated grids completely; part (1) enumerates every labelling of its block but the block is a finite part of the 2^64 identifier space",
        "totality_calls": calls,
        "totality_failing": failing,
        "bracket_grid_points": total,
        "bracket_admissible": admissible,
        "bracket_worst_excess": worst,
        "collision_configs": cfgs.len(),
        "collision_register_pairs": pairs,
        "collision_max_abs_z": maxz,
        "collision_details": details,
    });
    ctx.finish(
        "exploration",
        coverage,
        vec![
            "collision model: registers are clamp(floor(1-log_b X),0,q+1) with X_A=min(Y_{A\\B},Y_{A∩B}), X_B likewise, Y_S~Exp(a|S|) independent".into(),
            "part (1) decides the finite block it enumerates (6 standard errors, confirm-on-larger-block); shifts below ~3/sqrt(pairs) are not resolved".into(),
        ],
    )
}

pub fn replay(_ctx: &Ctx, case: &Value) -> Result<(bool, String), String> {
    match case["kind"].as_str() {
        Some("bounds") => {
            let b = case["b"].as_f64().ok_or("b")?;
            let bits = u64::from_str_radix(case["jac_bits"].as_str().ok_or("jac_bits")?.trim_start_matches("0x"), 16).map_err(|e| e.to_string())?;
            let jac = f64::from_bits(bits);
            Ok(match bounds(b, jac) {
                BoundsRes::Ok(lo, hi) => (!(lo <= hi + 1e-9), format!("get_jaccard_bounds({:e}) = ({}, {})", jac, lo, hi)),
                BoundsRes::Panic(p) => (true, format!("get_jaccard_bounds({:e}) panics: {}", jac, &p[..p.len().min(120)])),
            })
        }
        Some("bracket") => {
            let b = case["b"].as_f64().ok_or("b")?;
            let (n1, n2, n12) = (case["n1"].as_f64().ok_or("n1")?, case["n2"].as_f64().ok_or("n2")?, case["n12"].as_f64().ok_or("n12")?);
            let p = collision_prob(b, 20., doc_q(b), n1, n2, n12);
            let j = n12 / (n1 + n2 + n12);
            Ok(match bounds(b, p) {
                BoundsRes::Ok(lo, hi) => ((lo - j).max(j - hi) > 1e-4, format!("J={} bounds=({}, {}) p={}", j, lo, hi, p)),
                BoundsRes::Panic(pn) => (true, pn),
            })
        }
        Some("collision") => {
            let cfg = cfg_from_json(&case["cfg"])?;
            let base: u64 = case["base"].as_str().ok_or("base")?.parse().map_err(|e| format!("{}", e))?;
            let o = run_cfg(&cfg, base);
            Ok((o.z.abs() > 6., format!("empirical {:.6} model {:.6} z {:.2}", o.mean, o.p, o.z)))
        }
        _ => Err("kind".into()),
    }
}
