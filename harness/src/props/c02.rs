//! C02 — a ProbMinHash signature is a function of the weighted set alone.
//! Engine A: every weighted set over a small item x weight alphabet, all insertion orders, every entry point, batch
//! splits and re-insertions, against the composition of the REAL single-item runs (position-wise argmin, hook H2).

use crate::common::{guarded_mut, Ctx};
use fnv::FnvHasher;
use probminhash::nohasher::NoHashHasher;
use indexmap::IndexMap;
use probminhash::probminhasher::{ProbMinHash2, ProbMinHash3, ProbMinHash3a, ProbMinHash3aSha};
use probminhash::weightedset::WeightedSet;
use rayon::prelude::*;
use serde_json::{json, Value};
use std::collections::{BTreeMap, HashMap};

const PLACEHOLDER: u64 = u64::MAX;

#[derive(Clone, Copy, Debug, PartialEq, Eq, Hash, PartialOrd, Ord)]
pub enum Variant {
    P2,
    P3,
    P3a,
    P3aShaU64,
    P3aShaStr,
    /// the same algorithms with the no-op hasher (item identifiers are used as generator seeds directly)
    P2NoHash,
    P3NoHash,
    P3aNoHash,
}
const VARIANTS: [Variant; 8] = [Variant::P2, Variant::P3, Variant::P3a, Variant::P3aShaU64, Variant::P3aShaStr, Variant::P2NoHash, Variant::P3NoHash, Variant::P3aNoHash];

#[derive(Clone, Copy, Debug, PartialEq, Eq)]
pub enum Entry {
    Item,
    WSet,
    IdxMap,
    HashMap,
    /// two batch calls, the first with `usize` items
    Split(usize),
    /// item-wise, item at position .0 inserted again after position .1
    Reinsert(usize, usize),
}

struct WIter {
    items: Vec<(u64, f64)>,
    pos: usize,
}
impl Iterator for WIter {
    type Item = u64;
    fn next(&mut self) -> Option<u64> {
        let r = self.items.get(self.pos).map(|x| x.0);
        self.pos += 1;
        r
    }
}
impl WeightedSet for WIter {
    type Object = u64;
    fn get_weight(&self, obj: &u64) -> f64 {
        self.items.iter().find(|x| x.0 == *obj).map(|x| x.1).unwrap()
    }
}

fn skey(x: u64) -> String {
    format!("item-{}", x)
}
fn unskey(s: &str) -> u64 {
    if s == "<init>" {
        PLACEHOLDER
    } else {
        s.trim_start_matches("item-").parse().unwrap_or(PLACEHOLDER - 1)
    }
}

pub type Out = (Vec<u64>, Vec<u64>); // (signature as item ids, registers as bit patterns)

/// run one variant through one entry point on the ordered weighted list; None = entry point does not exist for the variant
pub fn run_variant(v: Variant, e: Entry, m: usize, ws: &[(u64, f64)]) -> Option<Result<Out, String>> {
    let ws = ws.to_vec();
    let regs = |r: Vec<f64>| r.iter().map(|x| x.to_bits()).collect::<Vec<u64>>();
    let idx = |part: &[(u64, f64)]| -> IndexMap<u64, f64> { part.iter().cloned().collect() };
    let hm = |part: &[(u64, f64)]| -> HashMap<u64, f64> { part.iter().cloned().collect() };
    let sidx = |part: &[(u64, f64)]| -> IndexMap<String, f64> { part.iter().map(|(k, w)| (skey(*k), *w)).collect() };
    let shm = |part: &[(u64, f64)]| -> HashMap<String, f64> { part.iter().map(|(k, w)| (skey(*k), *w)).collect() };
    let stream: Vec<(u64, f64)> = match e {
        Entry::Reinsert(i, j) => {
            let mut s = Vec::new();
            for (p, x) in ws.iter().enumerate() {
                s.push(*x);
                if p == j {
                    s.push(ws[i]);
                }
            }
            s
        }
        _ => ws.clone(),
    };
    let supported = match (v, e) {
        (Variant::P2 | Variant::P2NoHash, Entry::Item | Entry::WSet | Entry::HashMap | Entry::Reinsert(..)) => true,
        (Variant::P2 | Variant::P2NoHash, Entry::Split(_)) => true, // two hashmap batches
        (Variant::P3 | Variant::P3NoHash, Entry::Item | Entry::WSet | Entry::IdxMap | Entry::HashMap | Entry::Reinsert(..) | Entry::Split(_)) => true,
        (Variant::P3a | Variant::P3aNoHash | Variant::P3aShaU64 | Variant::P3aShaStr, Entry::IdxMap | Entry::HashMap | Entry::Split(_)) => true,
        _ => false,
    };
    if !supported {
        return None;
    }
    Some(guarded_mut(move || match v {
        Variant::P2 => {
            let mut h = ProbMinHash2::<u64, FnvHasher>::new(m, PLACEHOLDER);
            match e {
                Entry::Item | Entry::Reinsert(..) => {
                    for (k, w) in &stream {
                        h.hash_item(*k, *w);
                    }
                }
                Entry::WSet => h.hash_wset(&mut WIter { items: ws.clone(), pos: 0 }),
                Entry::HashMap => h.hash_weigthed_hashmap::<std::collections::hash_map::RandomState>(&hm(&ws)),
                Entry::Split(c) => {
                    h.hash_weigthed_hashmap::<std::collections::hash_map::RandomState>(&hm(&ws[..c]));
                    h.hash_weigthed_hashmap::<std::collections::hash_map::RandomState>(&hm(&ws[c..]));
                }
                _ => unreachable!(),
            }
            (h.get_signature().clone(), regs(h.verif_registers()))
        }
        Variant::P2NoHash => {
            let mut h = ProbMinHash2::<u64, NoHashHasher>::new(m, PLACEHOLDER);
            match e {
                Entry::Item | Entry::Reinsert(..) => {
                    for (k, w) in &stream {
                        h.hash_item(*k, *w);
                    }
                }
                Entry::WSet => h.hash_wset(&mut WIter { items: ws.clone(), pos: 0 }),
                Entry::HashMap => h.hash_weigthed_hashmap::<std::collections::hash_map::RandomState>(&hm(&ws)),
                Entry::Split(c) => {
                    h.hash_weigthed_hashmap::<std::collections::hash_map::RandomState>(&hm(&ws[..c]));
                    h.hash_weigthed_hashmap::<std::collections::hash_map::RandomState>(&hm(&ws[c..]));
                }
                _ => unreachable!(),
            }
            (h.get_signature().clone(), regs(h.verif_registers()))
        }
        Variant::P3 => {
            let mut h = ProbMinHash3::<u64, FnvHasher>::new(m, PLACEHOLDER);
            match e {
                Entry::Item | Entry::Reinsert(..) => {
                    for (k, w) in &stream {
                        h.hash_item(*k, w);
                    }
                }
                Entry::WSet => h.hash_wset(&mut WIter { items: ws.clone(), pos: 0 }),
                Entry::IdxMap => h.hash_weigthed_idxmap(&idx(&ws)),
                Entry::HashMap => h.hash_weigthed_hashmap(&hm(&ws)),
                Entry::Split(c) => {
                    h.hash_weigthed_idxmap(&idx(&ws[..c]));
                    h.hash_weigthed_hashmap(&hm(&ws[c..]));
                }
            }
            (h.get_signature().clone(), regs(h.verif_registers()))
        }
        Variant::P3NoHash => {
            let mut h = ProbMinHash3::<u64, NoHashHasher>::new(m, PLACEHOLDER);
            match e {
                Entry::Item | Entry::Reinsert(..) => {
                    for (k, w) in &stream {
                        h.hash_item(*k, w);
                    }
                }
                Entry::WSet => h.hash_wset(&mut WIter { items: ws.clone(), pos: 0 }),
                Entry::IdxMap => h.hash_weigthed_idxmap(&idx(&ws)),
                Entry::HashMap => h.hash_weigthed_hashmap(&hm(&ws)),
                Entry::Split(c) => {
                    h.hash_weigthed_idxmap(&idx(&ws[..c]));
                    h.hash_weigthed_hashmap(&hm(&ws[c..]));
                }
            }
            (h.get_signature().clone(), regs(h.verif_registers()))
        }
        Variant::P3a => {
            let mut h = ProbMinHash3a::<u64, FnvHasher>::new(m, PLACEHOLDER);
            match e {
                Entry::IdxMap => h.hash_weigthed_idxmap(&idx(&ws)),
                Entry::HashMap => h.hash_weigthed_hashmap(&hm(&ws)),
                Entry::Split(c) => {
                    h.hash_weigthed_idxmap(&idx(&ws[..c]));
                    h.hash_weigthed_hashmap(&hm(&ws[c..]));
                }
                _ => unreachable!(),
            }
            (h.get_signature().clone(), regs(h.verif_registers()))
        }
        Variant::P3aNoHash => {
            let mut h = ProbMinHash3a::<u64, NoHashHasher>::new(m, PLACEHOLDER);
            match e {
                Entry::IdxMap => h.hash_weigthed_idxmap(&idx(&ws)),
                Entry::HashMap => h.hash_weigthed_hashmap(&hm(&ws)),
                Entry::Split(c) => {
                    h.hash_weigthed_idxmap(&idx(&ws[..c]));
                    h.hash_weigthed_hashmap(&hm(&ws[c..]));
                }
                _ => unreachable!(),
            }
            (h.get_signature().clone(), regs(h.verif_registers()))
        }
        Variant::P3aShaU64 => {
            let mut h = ProbMinHash3aSha::<u64>::new(m, PLACEHOLDER);
            match e {
                Entry::IdxMap => h.hash_weigthed_idxmap(&idx(&ws)),
                Entry::HashMap => h.hash_weigthed_hashmap(&hm(&ws)),
                Entry::Split(c) => {
                    h.hash_weigthed_hashmap(&hm(&ws[..c]));
                    h.hash_weigthed_idxmap(&idx(&ws[c..]));
                }
                _ => unreachable!(),
            }
            (h.get_signature().clone(), regs(h.verif_registers()))
        }
        Variant::P3aShaStr => {
            let mut h = ProbMinHash3aSha::<String>::new(m, "<init>".to_string());
            match e {
                Entry::IdxMap => h.hash_weigthed_idxmap(&sidx(&ws)),
                Entry::HashMap => h.hash_weigthed_hashmap(&shm(&ws)),
                Entry::Split(c) => {
                    h.hash_weigthed_idxmap(&sidx(&ws[..c]));
                    h.hash_weigthed_hashmap(&shm(&ws[c..]));
                }
                _ => unreachable!(),
            }
            (h.get_signature().iter().map(|s| unskey(s)).collect(), regs(h.verif_registers()))
        }
    }))
}

fn canonical_entry(v: Variant) -> Entry {
    match v {
        Variant::P2 | Variant::P3 | Variant::P2NoHash | Variant::P3NoHash => Entry::Item,
        _ => Entry::IdxMap,
    }
}

fn weights_alphabet() -> Vec<f64> {
    vec![0.5, 1.0, 3.0, 1e-300, 1e300]
}

#[derive(Default)]
struct Stats {
    execs: u64,
    sets: u64,
    ties: u64,
    displaced: u64,
    distinct_sigs: u64,
    scaled: u64,
    unions: u64,
}

struct Finding {
    key: String,
    what: String,
    case: Value,
}

fn ws_json(ws: &[(u64, f64)]) -> Value {
    json!(ws.iter().map(|(k, w)| json!([k, format!("{:e}", w)])).collect::<Vec<_>>())
}

fn ws_from_json(v: &Value) -> Result<Vec<(u64, f64)>, String> {
    v.as_array()
        .ok_or("ws")?
        .iter()
        .map(|p| Ok((p[0].as_u64().ok_or("item")?, p[1].as_str().ok_or("weight")?.parse::<f64>().map_err(|e| e.to_string())?)))
        .collect()
}

fn all_orders(n: usize) -> Vec<Vec<usize>> {
    crate::common::permutations(n)
}

/// all checks of one (variant, m): singles table, then every weighted set
fn check_variant_m(v: Variant, m: usize, nitems: usize, st: &mut Stats) -> Vec<Finding> {
    let weights = weights_alphabet();
    let items: Vec<u64> = (1..=nitems as u64).collect();
    let mut findings: Vec<Finding> = Vec::new();
    // single-item runs (the reference the composition is built from)
    let mut singles: BTreeMap<(u64, usize), Out> = BTreeMap::new();
    for &it in &items {
        for (wi, &w) in weights.iter().enumerate() {
            match run_variant(v, canonical_entry(v), m, &[(it, w)]).unwrap() {
                Ok(o) => {
                    if o.0.iter().any(|s| *s != it) {
                        findings.push(Finding {
                            key: format!("placeholder:{:?}", v),
                            what: format!("{:?} m={}: single item {} with weight {:e} leaves positions unfilled or foreign: signature {:?}", v, m, it, w, o.0),
                            case: json!({"kind": "set", "variant": format!("{:?}", v), "m": m, "ws": ws_json(&[(it, w)]), "entry": "canonical"}),
                        });
                    }
                    singles.insert((it, wi), o);
                }
                Err(p) => findings.push(Finding {
                    key: format!("panic:{:?}", v),
                    what: format!("{:?} m={}: single item {} weight {:e}: panic {}", v, m, it, w, p),
                    case: json!({"kind": "set", "variant": format!("{:?}", v), "m": m, "ws": ws_json(&[(it, w)]), "entry": "canonical"}),
                }),
            }
        }
    }
    if !findings.is_empty() {
        return findings;
    }
    // every non-empty weighted set: each item absent or with one of the weights
    let nw = weights.len();
    let total = (nw + 1).pow(nitems as u32);
    let codes: Vec<usize> = (1..total).collect();
    let res: Vec<(u64, u64, u64, Option<Finding>, Vec<u64>)> = codes
        .par_iter()
        .map(|code| {
            let mut c = *code;
            let mut ws: Vec<(u64, f64)> = Vec::new();
            let mut wis: Vec<(u64, usize)> = Vec::new();
            for &it in &items {
                let d = c % (nw + 1);
                c /= nw + 1;
                if d > 0 {
                    ws.push((it, weights[d - 1]));
                    wis.push((it, d - 1));
                }
            }
            let n = ws.len();
            // composition of the singles
            let mut want_regs = vec![f64::INFINITY; m];
            let mut want_sig = vec![PLACEHOLDER; m];
            let mut tie = vec![false; m];
            for (it, wi) in &wis {
                let (_, r) = &singles[&(*it, *wi)];
                for k in 0..m {
                    let x = f64::from_bits(r[k]);
                    if x < want_regs[k] {
                        want_regs[k] = x;
                        want_sig[k] = *it;
                        tie[k] = false;
                    } else if x == want_regs[k] {
                        tie[k] = true;
                    }
                }
            }
            let want_bits: Vec<u64> = want_regs.iter().map(|x| x.to_bits()).collect();
            let nties = tie.iter().filter(|t| **t).count() as u64;
            let mut execs = 0u64;
            let mut displaced = 0u64;
            let mut bad: Option<Finding> = None;
            let mut entries: Vec<Entry> = vec![Entry::Item, Entry::WSet, Entry::IdxMap, Entry::HashMap];
            for c in 1..n {
                entries.push(Entry::Split(c));
            }
            let orders = all_orders(n);
            for (oi, ord) in orders.iter().enumerate() {
                let ows: Vec<(u64, f64)> = ord.iter().map(|i| ws[*i]).collect();
                let mut es = entries.clone();
                if oi == 0 || n <= 3 {
                    for i in 0..n {
                        for j in i..n {
                            es.push(Entry::Reinsert(i, j));
                        }
                    }
                }
                for e in es {
                    let r = match run_variant(v, e, m, &ows) {
                        None => continue,
                        Some(r) => r,
                    };
                    execs += 1;
                    let problem = match &r {
                        Err(p) => Some(format!("panic: {}", p)),
                        Ok((sig, regs)) => {
                            let mut pr = None;
                            for k in 0..m {
                                if !ws.iter().any(|x| x.0 == sig[k]) {
                                    pr = Some(format!("position {} holds {} which is not an item of the set (placeholder = {})", k, sig[k], PLACEHOLDER));
                                    break;
                                }
                                if regs[k] != want_bits[k] {
                                    pr = Some(format!(
                                        "position {}: register {:e} differs from the minimum {:e} of the single-item runs (the signature is not the position-wise composition, hence order / entry-point dependent)",
                                        k,
                                        f64::from_bits(regs[k]),
                                        want_regs[k]
                                    ));
                                    break;
                                }
                                if !tie[k] && sig[k] != want_sig[k] {
                                    pr = Some(format!("position {} holds item {} but item {} has the smallest value there", k, sig[k], want_sig[k]));
                                    break;
                                }
                            }
                            pr
                        }
                    };
                    if let (Entry::Item, Ok((sig, _))) = (e, &r) {
                        // the last streamed item displaced an earlier one somewhere
                        if n >= 2 && sig.iter().any(|s| *s == ows[n - 1].0) {
                            displaced += 1;
                        }
                    }
                    if let Some(p) = problem {
                        if bad.is_none() {
                            let key = if p.contains("not an item of the set") { format!("foreign-or-placeholder:{:?}", v) } else { format!("not-a-set-function:{:?}", v) };
                            bad = Some(Finding {
                                key,
                                what: format!("{:?} m={} weighted set {:?} inserted as {:?} through {:?}: {}", v, m, ws, ows, e, p),
                                case: json!({"kind": "set", "variant": format!("{:?}", v), "m": m, "ws": ws_json(&ows), "entry": format!("{:?}", e)}),
                            });
                        }
                    }
                }
            }
            (execs, nties, displaced, bad, want_sig)
        })
        .collect();
    let mut sigs = std::collections::BTreeSet::new();
    for (e, t, d, b, s) in res {
        st.execs += e;
        st.ties += t;
        st.displaced += d;
        st.sets += 1;
        sigs.insert(s);
        if let Some(b) = b {
            if findings.len() < 3 {
                findings.push(b);
            }
        }
    }
    st.distinct_sigs += sigs.len() as u64;
    findings
}

/// scaling all weights by the same power of two leaves the signature unchanged
fn scaling_check(v: Variant, m: usize, st: &mut Stats) -> Vec<Finding> {
    let mut out = Vec::new();
    let base_sets: Vec<Vec<(u64, f64)>> = vec![
        vec![(1, 0.5), (2, 1.0), (3, 3.0)],
        vec![(1, 1.0), (2, 1.0), (3, 1.0), (4, 1.0), (5, 1.0)],
        vec![(1, 1e-3), (2, 7.25), (3, 1e3), (4, 0.3)],
        vec![(2, 3.0)],
        (1..=40u64).map(|i| (i, 1.0 + (i % 7) as f64 * 0.37)).collect(),
    ];
    for ws in base_sets {
        let r0 = match run_variant(v, canonical_entry(v), m, &ws).unwrap() {
            Ok(r) => r,
            Err(_) => continue,
        };
        for k in [-900i32, -600, -52, -3, 4, 100, 600, 900] {
            let f = 2f64.powi(k);
            let scaled: Vec<(u64, f64)> = ws.iter().map(|(i, w)| (*i, w * f)).collect();
            if scaled.iter().any(|(_, w)| !w.is_finite() || *w < 1e-300 || *w > 1e300) {
                continue; // outside the weight range of the property
            }
            st.scaled += 1;
            st.execs += 1;
            match run_variant(v, canonical_entry(v), m, &scaled).unwrap() {
                Ok(r) => {
                    if r.0 != r0.0 {
                        out.push(Finding {
                            key: format!("scaling:{:?}", v),
                            what: format!("{:?} m={}: multiplying all weights of {:?} by 2^{} changes the signature {:?} -> {:?}", v, m, ws, k, r0.0, r.0),
                            case: json!({"kind": "scale", "variant": format!("{:?}", v), "m": m, "ws": ws_json(&ws), "k": k}),
                        });
                    }
                }
                Err(p) => out.push(Finding {
                    key: format!("panic:{:?}", v),
                    what: format!("{:?} m={}: weights {:?} x 2^{}: panic {}", v, m, ws, k, p),
                    case: json!({"kind": "scale", "variant": format!("{:?}", v), "m": m, "ws": ws_json(&ws), "k": k}),
                }),
            }
        }
    }
    out
}

/// union clause on larger sets: each position of sig(A∪B) equals that position of sig(A) or sig(B), from the side with the smaller register
fn union_check(v: Variant, m: usize, st: &mut Stats) -> Vec<Finding> {
    let mut out = Vec::new();
    let w = |i: u64| 0.25 + (i % 9) as f64 * 0.8;
    let fam: Vec<(Vec<u64>, Vec<u64>)> = vec![
        ((1..=6).collect(), (4..=10).collect()),
        ((1..=30).collect(), (31..=60).collect()),
        ((1..=50).collect(), (1..=50).collect()),
        (vec![1], (1..=200).collect()),
        ((1..=300).collect(), (250..=260).collect()),
        ((10..=12).collect(), (11..=11).collect()),
    ];
    for (a, b) in fam {
        let wa: Vec<(u64, f64)> = a.iter().map(|i| (*i, w(*i))).collect();
        let wb: Vec<(u64, f64)> = b.iter().map(|i| (*i, w(*i))).collect();
        let mut u: BTreeMap<u64, f64> = BTreeMap::new();
        for (i, x) in wa.iter().chain(wb.iter()) {
            u.insert(*i, *x);
        }
        let wu: Vec<(u64, f64)> = u.into_iter().collect();
        let e = canonical_entry(v);
        st.unions += 1;
        st.execs += 3;
        let (ra, rb, ru) = match (run_variant(v, e, m, &wa).unwrap(), run_variant(v, e, m, &wb).unwrap(), run_variant(v, e, m, &wu).unwrap()) {
            (Ok(x), Ok(y), Ok(z)) => (x, y, z),
            _ => {
                out.push(Finding { key: format!("panic:{:?}", v), what: format!("{:?} m={}: panic on union family", v, m), case: json!({"kind": "union", "variant": format!("{:?}", v), "m": m}) });
                continue;
            }
        };
        for k in 0..m {
            let (xa, xb, xu) = (f64::from_bits(ra.1[k]), f64::from_bits(rb.1[k]), f64::from_bits(ru.1[k]));
            let ok_reg = xu == xa.min(xb);
            let ok_sig = if xa < xb { ru.0[k] == ra.0[k] } else if xb < xa { ru.0[k] == rb.0[k] } else { ru.0[k] == ra.0[k] || ru.0[k] == rb.0[k] };
            if !ok_reg || !ok_sig {
                out.push(Finding {
                    key: format!("union:{:?}", v),
                    what: format!(
                        "{:?} m={}: |A|={} |B|={} position {}: union holds item {} (value {:e}); A holds {} ({:e}), B holds {} ({:e})",
                        v, m, a.len(), b.len(), k, ru.0[k], xu, ra.0[k], xa, rb.0[k], xb
                    ),
                    case: json!({"kind": "union", "variant": format!("{:?}", v), "m": m}),
                });
                break;
            }
        }
    }
    out
}

/// forced near-collisions: weights tuned (from the real single-item runs) so that two items almost tie at a position
fn near_tie_check(v: Variant, m: usize, st: &mut Stats, nears: &mut u64) -> Vec<Finding> {
    let mut out = Vec::new();
    let e = canonical_entry(v);
    for d1 in 1..=3u64 {
        for d2 in (d1 + 1)..=4u64 {
            let (s1, s2) = match (run_variant(v, e, m, &[(d1, 1.0)]).unwrap(), run_variant(v, e, m, &[(d2, 1.0)]).unwrap()) {
                (Ok(a), Ok(b)) => (a, b),
                _ => continue,
            };
            for k in 0..m {
                let r1 = f64::from_bits(s1.1[k]);
                let r2 = f64::from_bits(s2.1[k]);
                for eps in [1e-9, -1e-9, 1e-12, -1e-12, 3e-15, -3e-15] {
                    let w2 = (r2 / r1) * (1. + eps);
                    if !(w2.is_finite() && w2 > 1e-6 && w2 < 1e6) {
                        continue;
                    }
                    let t2 = match run_variant(v, e, m, &[(d2, w2)]).unwrap() {
                        Ok(x) => x,
                        Err(_) => continue,
                    };
                    let x1 = r1;
                    let x2 = f64::from_bits(t2.1[k]);
                    if x1 == x2 {
                        continue; // exact tie: legitimately order dependent
                    }
                    *nears += 1;
                    let want = if x1 < x2 { d1 } else { d2 };
                    for ord in [vec![(d1, 1.0), (d2, w2)], vec![(d2, w2), (d1, 1.0)]] {
                        st.execs += 1;
                        match run_variant(v, e, m, &ord).unwrap() {
                            Ok((sig, regs)) => {
                                if sig[k] != want || f64::from_bits(regs[k]) != x1.min(x2) {
                                    out.push(Finding {
                                        key: format!("near-tie:{:?}", v),
                                        what: format!(
                                            "{:?} m={} set {:?}: at position {} item {} has value {:e} and item {} has {:e} (relative gap {:.1e}) but the signature holds item {} (register {:e})",
                                            v, m, ord, k, d1, x1, d2, x2, (x1 - x2).abs() / x1, sig[k], f64::from_bits(regs[k])
                                        ),
                                        case: json!({"kind": "set", "variant": format!("{:?}", v), "m": m, "ws": ws_json(&ord), "entry": "canonical"}),
                                    });
                                    if out.len() > 2 {
                                        return out;
                                    }
                                }
                            }
                            Err(p) => out.push(Finding { key: format!("panic:{:?}", v), what: p, case: json!({"kind": "set", "variant": format!("{:?}", v), "m": m, "ws": ws_json(&ord), "entry": "canonical"}) }),
                        }
                    }
                }
            }
        }
    }
    out
}

/// larger weighted sets (pruning paths that tiny sets never reach): several insertion orders and entry points must agree
fn large_set_orders(v: Variant, m: usize, nsets: u64, n: u64, st: &mut Stats) -> Vec<Finding> {
    let mut out = Vec::new();
    let wtab = [0.3, 0.5, 1.0, 1.0, 1.5, 2.0, 3.0, 4.5, 7.0, 11.0, 16.0, 40.0, 250.0];
    for si in 0..nsets {
        let base = 1_000_000 * (si + 1);
        let ws: Vec<(u64, f64)> = (0..n).map(|i| (base + i, wtab[(crate::common::splitmix64(base + i) % wtab.len() as u64) as usize])).collect();
        let mut rev = ws.clone();
        rev.reverse();
        let mut shuf = ws.clone();
        shuf.sort_by_key(|x| crate::common::splitmix64(x.0 ^ 0xABCDEF));
        let reference = match run_variant(v, canonical_entry(v), m, &ws).unwrap() {
            Ok(r) => r,
            Err(p) => {
                out.push(Finding { key: format!("panic:{:?}", v), what: p, case: json!({"kind": "large", "variant": format!("{:?}", v), "m": m, "set": si, "n": n}) });
                continue;
            }
        };
        for (oname, ord) in [("reversed", &rev), ("shuffled", &shuf), ("forward", &ws)] {
            for e in [Entry::Item, Entry::IdxMap, Entry::HashMap, Entry::Split(ord.len() / 3)] {
                let r = match run_variant(v, e, m, ord) {
                    None => continue,
                    Some(r) => r,
                };
                st.execs += 1;
                if r.as_ref().ok() != Some(&reference) {
                    let nd = match &r {
                        Ok(x) => x.0.iter().zip(reference.0.iter()).filter(|(a, b)| a != b).count(),
                        Err(_) => m,
                    };
                    out.push(Finding {
                        key: format!("not-a-set-function:{:?}", v),
                        what: format!("{:?} m={}: a weighted set of {} items (13 weight classes, set #{}) inserted in {} order through {:?} differs from the forward order in {} of {} positions", v, m, n, si, oname, e, nd, m),
                        case: json!({"kind": "large", "variant": format!("{:?}", v), "m": m, "set": si, "n": n}),
                    });
                    return out;
                }
            }
        }
        // ProbMinHash3 and 3a agree on large sets too
        if v == Variant::P3a {
            st.execs += 1;
            if let Some(Ok(p3)) = run_variant(Variant::P3, Entry::Item, m, &ws) {
                if p3 != reference {
                    out.push(Finding {
                        key: "p3-vs-p3a".into(),
                        what: format!("m={}: ProbMinHash3 and ProbMinHash3a differ on a weighted set of {} items (set #{})", m, n, si),
                        case: json!({"kind": "large", "variant": "P3a", "m": m, "set": si, "n": n}),
                    });
                    return out;
                }
            }
        }
    }
    out
}

/// the placeholder object passed to `new` may itself be an item of the stream (the documentation suggests 0 for numeric
/// ids): order independence and ProbMinHash3 == ProbMinHash3a must hold then too
fn placeholder_alias_check(m: usize, st: &mut Stats) -> Vec<Finding> {
    let mut out = Vec::new();
    let items = [0u64, 1, 2, 3];
    let weights = [1.0, 2.0, 0.5, 3.0];
    for init in [0u64, 2] {
        for mask in 1u32..16 {
            let ws: Vec<(u64, f64)> = (0..4).filter(|i| mask & (1 << i) != 0).map(|i| (items[i], weights[i])).collect();
            let mut results: Vec<(String, Vec<u64>)> = Vec::new();
            for ord in all_orders(ws.len()) {
                let ows: Vec<(u64, f64)> = ord.iter().map(|i| ws[*i]).collect();
                let r = guarded_mut(|| {
                    let mut v: Vec<(String, Vec<u64>)> = Vec::new();
                    let mut h2 = ProbMinHash2::<u64, FnvHasher>::new(m, init);
                    let mut h3 = ProbMinHash3::<u64, FnvHasher>::new(m, init);
                    for (k, w) in &ows {
                        h2.hash_item(*k, *w);
                        h3.hash_item(*k, w);
                    }
                    let mut h3a = ProbMinHash3a::<u64, FnvHasher>::new(m, init);
                    let im: IndexMap<u64, f64> = ows.iter().cloned().collect();
                    h3a.hash_weigthed_idxmap(&im);
                    v.push(("ProbMinHash2".into(), h2.get_signature().clone()));
                    v.push(("ProbMinHash3".into(), h3.get_signature().clone()));
                    v.push(("ProbMinHash3a".into(), h3a.get_signature().clone()));
                    v
                });
                st.execs += 3;
                match r {
                    Err(p) => {
                        out.push(Finding { key: "panic:placeholder-alias".into(), what: p, case: json!({"kind": "alias", "m": m, "init": init, "ws": ws_json(&ows)}) });
                        return out;
                    }
                    Ok(v) => {
                        if results.is_empty() {
                            results = v.clone();
                            if v[1].1 != v[2].1 {
                                out.push(Finding {
                                    key: "p3-vs-p3a".into(),
                                    what: format!("m={} placeholder object {} (also an item id): ProbMinHash3 gives {:?}, ProbMinHash3a gives {:?} for {:?}", m, init, v[1].1, v[2].1, ows),
                                    case: json!({"kind": "alias", "m": m, "init": init, "ws": ws_json(&ows)}),
                                });
                                return out;
                            }
                        }
                        for i in 0..3 {
                            if v[i].1 != results[i].1 {
                                out.push(Finding {
                                    key: format!("not-a-set-function:{}:placeholder-is-an-item", v[i].0),
                                    what: format!(
                                        "{} m={} built with placeholder object {} (which is also an item id): inserting {:?} gives {:?}, another order of the same weighted set gives {:?}",
                                        v[i].0, m, init, ows, v[i].1, results[i].1
                                    ),
                                    case: json!({"kind": "alias", "m": m, "init": init, "ws": ws_json(&ows)}),
                                });
                                return out;
                            }
                        }
                    }
                }
            }
        }
    }
    out
}

/// weights between the smallest positive normal number and 1e-305
fn tiny_weight_probe(ctx: &Ctx, st: &mut Stats) {
    for v in VARIANTS {
        for &m in &[2usize, 16, 64] {
            for &w in &[f64::MIN_POSITIVE, 1e-308, 1e-307, 1e-306, 1e-305, 1e-304, 1e-302] {
                st.execs += 1;
                let r = run_variant(v, canonical_entry(v), m, &[(7, w)]).unwrap();
                let problem = match r {
                    Err(p) => Some(format!("panic: {}", p)),
                    Ok((sig, _)) => {
                        let unfilled = sig.iter().filter(|s| **s != 7).count();
                        if unfilled > 0 {
                            Some(format!("{} of {} positions keep the placeholder", unfilled, m))
                        } else {
                            None
                        }
                    }
                };
                if let Some(p) = problem {
                    let key = if w < 1e-304 { "placeholder:weight<1e-304".to_string() } else { format!("placeholder:{:?}", v) };
                    ctx.violation(
                        &key,
                        &format!("{:?} m={}: a single item of weight {:e}: {}", v, m, w, p),
                        json!({"kind": "set", "variant": format!("{:?}", v), "m": m, "ws": ws_json(&[(7, w)]), "entry": "canonical"}),
                    );
                }
            }
        }
    }
}

fn parse_variant(s: &str) -> Option<Variant> {
    VARIANTS.iter().cloned().find(|v| format!("{:?}", v) == s)
}

pub fn run(ctx: &Ctx) -> i32 {
    let mut st = Stats::default();
    let nitems = ctx.pick(4usize, 5);
    let ms: Vec<usize> = ctx.pick(vec![2, 3, 4, 8, 16], vec![2, 3, 4, 8, 16, 33]);
    let mut per = Vec::new();
    let mut nears = 0u64;
    for v in VARIANTS {
        // the String-keyed Sha variant on a reduced alphabet in the quick tier
        let ni = if v == Variant::P3aShaStr && ctx.quick() { 3 } else { nitems };
        for &m in &ms {
            let before = st.execs;
            for f in check_variant_m(v, m, ni, &mut st) {
                ctx.violation(&f.key, &f.what, f.case);
            }
            for f in scaling_check(v, m, &mut st) {
                ctx.violation(&f.key, &f.what, f.case);
            }
            for f in union_check(v, m, &mut st) {
                ctx.violation(&f.key, &f.what, f.case);
            }
            for f in near_tie_check(v, m, &mut st, &mut nears) {
                ctx.violation(&f.key, &f.what, f.case);
            }
            per.push(json!({"variant": format!("{:?}", v), "m": m, "items": ni, "executions": st.execs - before}));
        }
    }
    for &m in &ms {
        for f in placeholder_alias_check(m, &mut st) {
            ctx.violation(&f.key, &f.what, f.case);
        }
    }
    // larger sets
    let (nsets, nbig) = ctx.pick((40u64, 2000u64), (300u64, 2000u64));
    for v in VARIANTS {
        if v == Variant::P3aShaStr {
            continue;
        }
        for &(m, n) in &[(256usize, nbig), (64, 300), (16, 50), (256, 150), (64, 40), (1024, 30)] {
            let ns = if v == Variant::P3aShaU64 { nsets / 4 } else { nsets };
            for f in large_set_orders(v, m, ns, n, &mut st) {
                ctx.violation(&f.key, &f.what, f.case);
            }
        }
    }
    // a set of 70 000 items (a counter of items or a per-round index narrower than usize shows after 2^16 items)
    for v in VARIANTS {
        if v == Variant::P3aShaStr {
            continue;
        }
        for f in large_set_orders(v, 16, 1, 70_000, &mut st) {
            ctx.violation(&f.key, &f.what, f.case);
        }
    }
    // a set of 2^20 + 12 items, the 12 heavier ones last or first (a per-call block size, buffer bound or counter that only
    // matters beyond a million entries): every entry point of the ProbMinHash3 family agrees with item-wise ProbMinHash3,
    // ProbMinHash2's HashMap entry with its item-wise run, 3a-Sha's two entry points and two orders with each other
    {
        let n: u64 = (1 << 20) + 12;
        let mut last: Vec<(u64, f64)> = (0..n).map(|i| (500_000_000 + i, if i < (1 << 20) { 1.0 } else { 3.0e4 * (1 + i - (1 << 20)) as f64 })).collect();
        let mut first = last.clone();
        first.rotate_right(12);
        let m = 64;
        let runs: Vec<(&str, Variant, Entry, bool)> = vec![
            ("ProbMinHash3 item-wise, heavy last", Variant::P3, Entry::Item, false),
            ("ProbMinHash3 item-wise, heavy first", Variant::P3, Entry::Item, true),
            ("ProbMinHash3a IndexMap, heavy last", Variant::P3a, Entry::IdxMap, false),
            ("ProbMinHash3a IndexMap, heavy first", Variant::P3a, Entry::IdxMap, true),
            ("ProbMinHash3a HashMap", Variant::P3a, Entry::HashMap, false),
            ("ProbMinHash3a two calls", Variant::P3a, Entry::Split(1 << 19), false),
        ];
        let outs: Vec<(&str, Option<Result<Out, String>>)> = runs.par_iter().map(|(name, v, e, hf)| (*name, run_variant(*v, *e, m, if *hf { &first } else { &last }))).collect();
        st.execs += outs.len() as u64;
        let reference = outs[0].1.clone();
        for (name, o) in &outs[1..] {
            if *o != reference {
                ctx.violation(
                    "not-a-set-function:huge-set",
                    &format!("m={}: a weighted set of 2^20+12 items (2^20 of weight 1, 12 of weight 3e4..3.6e5) gives a different signature through '{}' than through '{}'", m, name, outs[0].0),
                    json!({"kind": "huge"}),
                );
                break;
            }
        }
        let sha: Vec<Option<Result<Out, String>>> = [(Entry::IdxMap, false), (Entry::IdxMap, true), (Entry::HashMap, false)].par_iter().map(|(e, hf)| run_variant(Variant::P3aShaU64, *e, m, if *hf { &first } else { &last })).collect();
        let p2: Vec<Option<Result<Out, String>>> = [(Entry::Item, false), (Entry::HashMap, true)].par_iter().map(|(e, hf)| run_variant(Variant::P2, *e, m, if *hf { &first } else { &last })).collect();
        st.execs += 5;
        if sha[1] != sha[0] || sha[2] != sha[0] {
            ctx.violation("not-a-set-function:huge-set", "ProbMinHash3aSha: a weighted set of 2^20+12 items gives different signatures through its entry points / orders", json!({"kind": "huge"}));
        }
        if p2[1] != p2[0] {
            ctx.violation("not-a-set-function:huge-set", "ProbMinHash2: a weighted set of 2^20+12 items gives different signatures item-wise and through the HashMap entry", json!({"kind": "huge"}));
        }
        last.clear();
    }
    // signature lengths around 2^16 (an index or counter narrower than usize shows there): one set of 12 items, all orders /
    // entry points of large_set_orders, ProbMinHash3 == ProbMinHash3a
    for v in VARIANTS {
        if v == Variant::P3aShaStr {
            continue;
        }
        for &m in &[65_535usize, 65_536, 65_537] {
            if v == Variant::P3aShaU64 && m != 65_537 {
                continue;
            }
            for f in large_set_orders(v, m, 1, 12, &mut st) {
                ctx.violation(&f.key, &f.what, f.case);
            }
        }
    }
    // ProbMinHash3 == ProbMinHash3a for large signature lengths that are not powers of two (integer range sampling paths
    // differ there): tiny sets make every item draw ~ m ln m positions
    let big_ms: Vec<(usize, u64)> = ctx.pick(vec![(5000, 300), (2000, 300), (3001, 200)], vec![(5000, 3000), (2000, 3000), (3001, 2000), (12289, 500)]);
    for (m, nsets) in big_ms {
        let mut differ = 0u64;
        let mut first: Option<(Vec<(u64, f64)>, usize)> = None;
        let res: Vec<(bool, Vec<(u64, f64)>, usize)> = (0..nsets)
            .into_par_iter()
            .map(|si| {
                let ws = vec![(37_000_000 + 2 * si, 1.0), (37_000_000 + 2 * si + 1, 2.0)];
                let a = run_variant(Variant::P3, Entry::Item, m, &ws).unwrap();
                let b = run_variant(Variant::P3a, Entry::IdxMap, m, &ws).unwrap();
                let nd = match (&a, &b) {
                    (Ok(x), Ok(y)) => x.0.iter().zip(y.0.iter()).filter(|(p, q)| p != q).count(),
                    _ => m,
                };
                (a != b, ws, nd)
            })
            .collect();
        st.execs += 2 * nsets;
        for (d, ws, nd) in res {
            if d {
                differ += 1;
                if first.is_none() {
                    first = Some((ws, nd));
                }
            }
        }
        if let Some((ws, nd)) = first {
            ctx.violation(
                "p3-vs-p3a",
                &format!("m={}: ProbMinHash3 and ProbMinHash3a differ on {} of {} two-item sets; first: {:?} differs in {} positions", m, differ, nsets, ws, nd),
                json!({"kind": "p3p3a", "m": m, "ws": ws_json(&ws)}),
            );
        }
    }
    // ProbMinHash3 and ProbMinHash3a give the same signature
    let mut same = 0u64;
    for &m in &ms {
        for code in 1..(6usize.pow(4)) {
            let mut c = code;
            let mut ws = Vec::new();
            for it in 1..=4u64 {
                let d = c % 6;
                c /= 6;
                if d > 0 {
                    ws.push((it, weights_alphabet()[d - 1]));
                }
            }
            let a = run_variant(Variant::P3, Entry::Item, m, &ws).unwrap();
            let b = run_variant(Variant::P3a, Entry::IdxMap, m, &ws).unwrap();
            same += 1;
            st.execs += 2;
            if a != b {
                ctx.violation(
                    "p3-vs-p3a",
                    &format!("m={} weighted set {:?}: ProbMinHash3 gives {:?}, ProbMinHash3a gives {:?}", m, ws, a.as_ref().map(|x| &x.0), b.as_ref().map(|x| &x.0)),
                    json!({"kind": "p3p3a", "m": m, "ws": ws_json(&ws)}),
                );
                break;
            }
        }
    }
    for (v, e, ws) in [
        (Variant::P3a, Entry::Split(1), vec![(4u64, 1e-300), (1, 0.5), (3, 1e300)]),
        (Variant::P2, Entry::Reinsert(0, 1), vec![(2, 3.0), (1, 1.0)]),
        (Variant::P3aShaStr, Entry::HashMap, vec![(1, 0.5), (2, 1.0), (3, 3.0)]),
    ] {
        if let Some(Ok((sig, regs))) = run_variant(v, e, 4, &ws) {
            ctx.sample(json!({"variant": format!("{:?}", v), "entry": format!("{:?}", e), "m": 4, "inserted_as": ws_json(&ws), "signature": sig,
                "registers": regs.iter().map(|b| f64::from_bits(*b)).collect::<Vec<_>>()}));
        }
    }
    tiny_weight_probe(ctx, &mut st);
    println!(
        "C02 executions={} weighted sets={} exact ties={} displacing-last-item runs={} distinct signatures={} scaling cases={} union cases={} P3/P3a comparisons={}",
        st.execs, st.sets, st.ties, st.displaced, st.distinct_sigs, st.scaled, st.unions, same
    );
    let coverage = json!({
        "states": st.distinct_sigs,
        "transitions": st.execs,
        "traces_validated_against_impl": st.execs,
        "samples": [
            {"weighted_set": [[1, "5e-1"], [3, "1e300"], [4, "1e-300"]], "order": [4, 1, 3], "entry": "Split(1): IndexMap batch then HashMap batch", "variant": "P3a", "m": 8},
            {"reinsert": {"ws": [[2, "3e0"], [1, "1e0"]], "entry": "Reinsert(0,1)"}},
            {"scaling": {"ws": [[1, "5e-1"], [2, "1e0"], [3, "3e0"]], "factor": "2^600"}}
        ],
        "exhaustive": true,
        "evaluations": st.execs,
        "distinct_nontrivial": st.distinct_sigs,
        "rule": "for ProbMinHash2, 3, 3a (Fnv and no-op hashers), 3a-Sha (u64 and String keys), m in {2,3,4,8,16,(33)}: every non-empty weighted set over 4 (5) items x weights {absent,0.5,1,3,1e-300,1e300}, ALL insertion orders, every entry point (hash_item, hash_wset, IndexMap, std HashMap), every 2-way batch split, every re-insertion of an already inserted pair at every later point; registers (hook H2) must equal the position-wise minimum and the signature the argmin of the REAL single-item runs (exact; bit-equal ties are classified and only checked for membership), every position holds an item of the set; plus forced near-ties (weights tuned from the real single-item runs so that two items differ by 1e-9 .. 3e-15 relative at a chosen position, both orders), weight scaling by 2^k, the union clause on sets up to 300 items, ProbMinHash3 == ProbMinHash3a on all 1295 sets and on hundreds of two-item sets at m = 5000, 2000, 3001 (12289), all subsets of 4 items in all orders with a placeholder object that is itself an item id, 40 (300) sets of 2000 / 300 / 50 items with 13 weight classes in forward / reversed / shuffled order through every entry point (m = 256 / 64 / 16, and n below m: 150 / 40 / 30 items at m = 256 / 64 / 1024; one 12-item set at m = 65535, 65536, 65537; one 70 000-item set at m = 16; one set of 2^20+12 items at m = 64 through 11 entry point / order combinations), and single items with weights down to the smallest normal float; distinct = distinct signatures",
        "weighted_sets": st.sets,
        "forced_near_ties": nears,
        "exact_ties_classified": st.ties,
        "runs_where_last_item_displaced_earlier": st.displaced,
        "per_variant_m": per,
    });
    ctx.finish(
        "model_checking",
        coverage,
        vec![
            "hook H2 returns the per-position minima kept by the tracker".into(),
            "larger item alphabets / other weights behave like the explored ones (all comparisons are between race values that scale as 1/w)".into(),
        ],
    )
}

pub fn replay(_ctx: &Ctx, case: &Value) -> Result<(bool, String), String> {
    match case["kind"].as_str() {
        Some("set") => {
            let v = parse_variant(case["variant"].as_str().ok_or("variant")?).ok_or("variant")?;
            let m = case["m"].as_u64().ok_or("m")? as usize;
            let ws = ws_from_json(&case["ws"])?;
            // order independence against the sorted order through the canonical entry point, and membership
            let mut sorted = ws.clone();
            sorted.sort_by(|a, b| a.0.cmp(&b.0));
            let a = run_variant(v, canonical_entry(v), m, &ws).unwrap();
            let b = run_variant(v, canonical_entry(v), m, &sorted).unwrap();
            let member = match &a {
                Ok((sig, _)) => sig.iter().all(|s| ws.iter().any(|x| x.0 == *s)),
                Err(_) => false,
            };
            Ok((a != b || !member, format!("same as sorted order: {}; every position holds an item of the set: {}", a == b, member)))
        }
        Some("huge") => Err("re-derived by running the check itself".into()),
        Some("large") => {
            let v = parse_variant(case["variant"].as_str().ok_or("variant")?).ok_or("variant")?;
            let m = case["m"].as_u64().ok_or("m")? as usize;
            let n = case["n"].as_u64().ok_or("n")?;
            let si = case["set"].as_u64().ok_or("set")?;
            let mut st = Stats::default();
            let f = large_set_orders(v, m, si + 1, n, &mut st);
            Ok((!f.is_empty(), f.first().map(|x| x.what.clone()).unwrap_or_else(|| "orders agree".into())))
        }
        Some("alias") => {
            let m = case["m"].as_u64().ok_or("m")? as usize;
            let mut st = Stats::default();
            let f = placeholder_alias_check(m, &mut st);
            Ok((!f.is_empty(), f.first().map(|x| x.what.clone()).unwrap_or_else(|| "holds".into())))
        }
        Some("p3p3a") => {
            let m = case["m"].as_u64().ok_or("m")? as usize;
            let ws = ws_from_json(&case["ws"])?;
            let a = run_variant(Variant::P3, Entry::Item, m, &ws).unwrap();
            let b = run_variant(Variant::P3a, Entry::IdxMap, m, &ws).unwrap();
            Ok((a != b, format!("P3 == P3a: {}", a == b)))
        }
        Some("scale") => {
            let v = parse_variant(case["variant"].as_str().ok_or("variant")?).ok_or("variant")?;
            let m = case["m"].as_u64().ok_or("m")? as usize;
            let ws = ws_from_json(&case["ws"])?;
            let k = case["k"].as_i64().ok_or("k")? as i32;
            let scaled: Vec<(u64, f64)> = ws.iter().map(|(i, w)| (*i, w * 2f64.powi(k))).collect();
            let a = run_variant(v, canonical_entry(v), m, &ws).unwrap().map(|x| x.0);
            let b = run_variant(v, canonical_entry(v), m, &scaled).unwrap().map(|x| x.0);
            Ok((a != b, format!("signature unchanged by scaling: {}", a == b)))
        }
        Some(_) => Err("re-derived by running the check".into()),
        None => Err("kind".into()),
    }
}
