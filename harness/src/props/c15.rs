//! C15 — the max tracker reports the true maximum of per-slot minima.
//! Closed explicit-state search (stateright BFS) over the real tracker, through hook H1.

use crate::common::{guarded_mut, Ctx};
use probminhash::verif::{MaxTracker, MaxValue};
use serde_json::{json, Value};
use stateright::{Checker, Model, Property};
use std::fmt::Debug;

pub trait TV: MaxValue + PartialOrd + Copy + Debug + Send + Sync + 'static {
    fn to_b(self) -> u64;
    fn from_b(b: u64) -> Self;
    fn name() -> &'static str;
}
impl TV for f64 {
    fn to_b(self) -> u64 {
        self.to_bits()
    }
    fn from_b(b: u64) -> f64 {
        f64::from_bits(b)
    }
    fn name() -> &'static str {
        "f64"
    }
}
impl TV for u32 {
    fn to_b(self) -> u64 {
        self as u64
    }
    fn from_b(b: u64) -> u32 {
        b as u32
    }
    fn name() -> &'static str {
        "u32"
    }
}

#[derive(Clone, Debug, PartialEq, Eq, Hash)]
pub struct St {
    /// the 2m-1 node values of the real tracker (bit patterns)
    raw: Vec<u64>,
    /// reference model: min of values ever offered to each slot
    refmin: Vec<u64>,
    /// panic message if the real call panicked
    panicked: Option<String>,
}

#[derive(Clone, Debug, PartialEq, Eq, Hash)]
pub enum Act {
    Update(usize, usize),
    Reset,
}

pub struct TrackerModel<V: TV> {
    m: usize,
    values: Vec<V>,
}

impl<V: TV> TrackerModel<V> {
    fn apply(&self, st: &St, act: &Act) -> St {
        let raw: Vec<V> = st.raw.iter().map(|b| V::from_b(*b)).collect();
        let m = self.m;
        let mut refmin = st.refmin.clone();
        let res = guarded_mut(|| {
            let mut t = MaxTracker::<V>::from_raw(m, raw);
            match act {
                Act::Update(k, vi) => t.update(*k, self.values[*vi]),
                Act::Reset => t.reset(),
            }
            t.raw()
        });
        match act {
            Act::Update(k, vi) => {
                let v = self.values[*vi];
                if v < V::from_b(refmin[*k]) {
                    refmin[*k] = v.to_b();
                }
            }
            Act::Reset => {
                for r in refmin.iter_mut() {
                    *r = V::get_max().to_b();
                }
            }
        }
        match res {
            Ok(raw) => St { raw: raw.iter().map(|v| v.to_b()).collect(), refmin, panicked: None },
            Err(msg) => St { raw: st.raw.clone(), refmin, panicked: Some(msg) },
        }
    }
}

/// all invariants of the property on one state; returns the name of the first broken clause
fn check_state<V: TV>(m: usize, values: &[V], st: &St) -> Option<String> {
    if let Some(p) = &st.panicked {
        return Some(format!("panic: {}", p));
    }
    let raw: Vec<V> = st.raw.iter().map(|b| V::from_b(*b)).collect();
    if raw.len() != 2 * m - 1 {
        return Some("node array length".into());
    }
    let t = MaxTracker::<V>::from_raw(m, raw.clone());
    // slot k = min of values ever offered
    for k in 0..m {
        if t.get_value(k).to_b() != st.refmin[k] {
            return Some(format!("slot {} holds {:?}, reference min {:?}", k, t.get_value(k), V::from_b(st.refmin[k])));
        }
    }
    // internal node = max of its two children
    for p in m..(2 * m - 1) {
        let c0 = 2 * (p - m);
        let c1 = c0 + 1;
        let mx = if raw[c0] > raw[c1] { raw[c0] } else { raw[c1] };
        if raw[p].to_b() != mx.to_b() {
            return Some(format!("node {} = {:?} is not max of children {:?},{:?}", p, raw[p], raw[c0], raw[c1]));
        }
    }
    // reported maximum = max of slots
    let mut mx = V::from_b(st.refmin[0]);
    for k in 1..m {
        let v = V::from_b(st.refmin[k]);
        if v > mx {
            mx = v;
        }
    }
    if t.get_max_value().to_b() != mx.to_b() {
        return Some(format!("reported max {:?}, true max {:?}", t.get_max_value(), mx));
    }
    // update possible exactly for values below the maximum
    for v in values {
        if t.is_update_possible(*v) != (*v < mx) {
            return Some(format!("is_update_possible({:?}) = {} with max {:?}", v, t.is_update_possible(*v), mx));
        }
    }
    None
}

impl<V: TV> Model for TrackerModel<V> {
    type State = St;
    type Action = Act;

    fn init_states(&self) -> Vec<St> {
        let t = MaxTracker::<V>::new(self.m);
        vec![St {
            raw: t.raw().iter().map(|v| v.to_b()).collect(),
            refmin: vec![V::get_max().to_b(); self.m],
            panicked: None,
        }]
    }

    fn actions(&self, st: &St, actions: &mut Vec<Act>) {
        if st.panicked.is_some() {
            return;
        }
        for k in 0..self.m {
            for vi in 0..self.values.len() {
                actions.push(Act::Update(k, vi));
            }
        }
        actions.push(Act::Reset);
    }

    fn next_state(&self, last: &St, action: Act) -> Option<St> {
        Some(self.apply(last, &action))
    }

    fn properties(&self) -> Vec<Property<Self>> {
        vec![Property::<Self>::always("tracker invariants", |model, st| {
            check_state::<V>(model.m, &model.values, st).is_none()
        })]
    }
}

struct SpaceResult {
    unique: usize,
    generated: usize,
    depth: usize,
    counterexample: Option<(Vec<Act>, String)>,
}

fn explore_space<V: TV>(m: usize, values: Vec<V>, threads: usize) -> SpaceResult {
    let model = TrackerModel::<V> { m, values: values.clone() };
    let checker = model.checker().threads(threads).spawn_bfs().join();
    let mut counterexample = None;
    if let Some(path) = checker.discovery("tracker invariants") {
        let last = path.last_state().clone();
        let why = check_state::<V>(m, &values, &last).unwrap_or_else(|| "?".into());
        counterexample = Some((path.into_actions(), why));
    }
    SpaceResult {
        unique: checker.unique_state_count(),
        generated: checker.state_count(),
        depth: checker.max_depth(),
        counterexample,
    }
}

/// run an action list on a fresh real tracker built with new() (no from_raw), checking the invariants after every step
fn run_sequence<V: TV>(m: usize, values: &[V], acts: &[Act]) -> (bool, String) {
    let mut refmin = vec![V::get_max().to_b(); m];
    let mut obs = String::new();
    let res = guarded_mut(|| {
        let mut t = MaxTracker::<V>::new(m);
        {
            let st0 = St { raw: t.raw().iter().map(|v| v.to_b()).collect(), refmin: refmin.clone(), panicked: None };
            if let Some(w) = check_state::<V>(m, values, &st0) {
                return Some(format!("initial state: {}", w));
            }
        }
        for (i, a) in acts.iter().enumerate() {
            match a {
                Act::Update(k, vi) => {
                    let v = values[*vi];
                    t.update(*k, v);
                    if v < V::from_b(refmin[*k]) {
                        refmin[*k] = v.to_b();
                    }
                }
                Act::Reset => {
                    t.reset();
                    for r in refmin.iter_mut() {
                        *r = V::get_max().to_b();
                    }
                }
            }
            let st = St { raw: t.raw().iter().map(|v| v.to_b()).collect(), refmin: refmin.clone(), panicked: None };
            if let Some(w) = check_state::<V>(m, values, &st) {
                return Some(format!("after step {} ({:?}): {}", i, a, w));
            }
            if matches!(a, Act::Reset) {
                let fresh = MaxTracker::<V>::new(m).raw();
                if fresh.iter().map(|v| v.to_b()).collect::<Vec<_>>() != st.raw {
                    return Some(format!("after step {}: reset state differs from initial state", i));
                }
            }
        }
        None
    });
    match res {
        Ok(None) => (false, "all invariants hold".into()),
        Ok(Some(w)) => {
            obs.push_str(&w);
            (true, obs)
        }
        Err(p) => (true, format!("panic: {}", p)),
    }
}

fn acts_to_json(acts: &[Act]) -> Value {
    json!(acts
        .iter()
        .map(|a| match a {
            Act::Update(k, vi) => json!({"update": [k, vi]}),
            Act::Reset => json!("reset"),
        })
        .collect::<Vec<_>>())
}

fn acts_from_json(v: &Value) -> Result<Vec<Act>, String> {
    let mut out = Vec::new();
    for a in v.as_array().ok_or("acts not an array")? {
        if a.as_str() == Some("reset") {
            out.push(Act::Reset);
        } else {
            let u = a["update"].as_array().ok_or("bad act")?;
            out.push(Act::Update(u[0].as_u64().ok_or("k")? as usize, u[1].as_u64().ok_or("vi")? as usize));
        }
    }
    Ok(out)
}

fn f64_values(n: usize) -> Vec<f64> {
    let all = [0.5, 1.0, 1.5, f64::MAX, 2.0];
    match n {
        3 => vec![0.5, 1.0, f64::MAX],
        4 => all[..4].to_vec(),
        _ => all.to_vec(),
    }
}
fn u32_values(n: usize) -> Vec<u32> {
    let all = [1u32, 2, 3, u32::MAX, 0];
    match n {
        3 => vec![1, 2, u32::MAX],
        4 => all[..4].to_vec(),
        _ => all.to_vec(),
    }
}

/// depth-bounded exploration from new() without from_raw (independent of the re-materialisation hook)
fn direct_sequences<V: TV>(ctx: &Ctx, m: usize, values: &[V], depth: usize, stats: &mut (u64, u64)) {
    let mut alphabet = Vec::new();
    for k in 0..m {
        for vi in 0..values.len() {
            alphabet.push(Act::Update(k, vi));
        }
    }
    alphabet.push(Act::Reset);
    let nact = alphabet.len();
    let mut idx = vec![0usize; depth];
    let mut failed = false;
    loop {
        let acts: Vec<Act> = idx.iter().map(|i| alphabet[*i].clone()).collect();
        let (viol, obs) = run_sequence::<V>(m, values, &acts);
        if stats.0 % 40_000 == 7 {
            ctx.sample(json!({"tracker": V::name(), "m": m, "sequence_from_new": acts_to_json(&acts), "result": obs}));
        }
        stats.0 += 1;
        stats.1 += depth as u64;
        if viol && !failed {
            failed = true;
            ctx.violation(
                &format!("direct-sequence:{}:m={}", V::name(), m),
                &obs,
                json!({"kind": "sequence", "vtype": V::name(), "m": m, "nvalues": values.len(), "acts": acts_to_json(&acts)}),
            );
        }
        // next index vector
        let mut p = depth;
        loop {
            if p == 0 {
                return;
            }
            p -= 1;
            idx[p] += 1;
            if idx[p] < nact {
                break;
            }
            idx[p] = 0;
        }
    }
}

/// Large slot counts (where an index narrower than usize, a table, or a tree shape that only appears at some size would
/// show): one structured history per size on a tracker from new(), every step checked against slot minima kept in a plain
/// array and their maximum kept in an ordered multiset; the whole node array is checked at the end of each phase.
fn large_size_history<V: TV>(m: usize, val: &dyn Fn(u64) -> V) -> Result<u64, String> {
    use std::collections::BTreeMap;
    let r = guarded_mut(|| -> Result<u64, String> {
        let mut t = MaxTracker::<V>::new(m);
        let mut mins: Vec<V> = vec![V::get_max(); m];
        let mut multi: BTreeMap<u64, usize> = BTreeMap::new();
        multi.insert(V::get_max().to_b(), m);
        let mut steps = 0u64;
        let step = |t: &mut MaxTracker<V>, mins: &mut Vec<V>, multi: &mut BTreeMap<u64, usize>, k: usize, v: V| -> Result<(), String> {
            t.update(k, v);
            if v < mins[k] {
                let old = mins[k].to_b();
                let c = multi.get_mut(&old).unwrap();
                *c -= 1;
                if *c == 0 {
                    multi.remove(&old);
                }
                *multi.entry(v.to_b()).or_insert(0) += 1;
                mins[k] = v;
            }
            let refmax = V::from_b(*multi.keys().next_back().unwrap());
            if t.get_value(k).to_b() != mins[k].to_b() {
                return Err(format!("m={}: after update({}, {:?}) slot holds {:?}, smallest value offered is {:?}", m, k, v, t.get_value(k), mins[k]));
            }
            if t.get_max_value().to_b() != refmax.to_b() {
                return Err(format!("m={}: after update({}, {:?}) reported max {:?}, true max of slot minima {:?}", m, k, v, t.get_max_value(), refmax));
            }
            if t.is_update_possible(v) != (v < refmax) || t.is_update_possible(refmax) {
                return Err(format!("m={}: after update({}, {:?}) is_update_possible disagrees with max {:?}", m, k, v, refmax));
            }
            Ok(())
        };
        let full = |t: &MaxTracker<V>, mins: &Vec<V>, phase: &str| -> Result<(), String> {
            let st = St { raw: t.raw().iter().map(|v| v.to_b()).collect(), refmin: mins.iter().map(|v| v.to_b()).collect(), panicked: None };
            match check_state::<V>(m, &[], &st) {
                Some(w) => Err(format!("m={} after phase {}: {}", m, phase, w)),
                None => Ok(()),
            }
        };
        let mu = m as u64;
        // A: ascending slots, distinct-ish values
        for k in 0..m {
            step(&mut t, &mut mins, &mut multi, k, val(1000 + (k as u64 * 7919) % mu))?;
            steps += 1;
        }
        full(&t, &mins, "A")?;
        // B: descending slots, lower values
        for k in (0..m).rev() {
            step(&mut t, &mut mins, &mut multi, k, val(500 + (k as u64 * 104_729) % 401))?;
            steps += 1;
        }
        full(&t, &mins, "B")?;
        // C: every third slot far down, then a value that improves nothing
        for k in (0..m).step_by(3) {
            step(&mut t, &mut mins, &mut multi, k, val(20))?;
            steps += 1;
        }
        for k in 0..m {
            step(&mut t, &mut mins, &mut multi, k, val(950))?;
            steps += 1;
        }
        full(&t, &mins, "C")?;
        // D: all slots to one value (ties), in a stride order
        let mut stride = (m / 2 + 1) | 1;
        while num::integer::gcd(stride, m) != 1 {
            stride += 2;
        }
        for i in 0..m {
            step(&mut t, &mut mins, &mut multi, (i * stride) % m, val(10))?;
            steps += 1;
        }
        full(&t, &mins, "D")?;
        // E: the last slot standing - the max must hold until the very last slot is lowered
        for k in 0..m {
            step(&mut t, &mut mins, &mut multi, (k + m / 3) % m, val(5))?;
            steps += 1;
        }
        full(&t, &mins, "E")?;
        // reset, then only half of the slots
        t.reset();
        mins = vec![V::get_max(); m];
        multi.clear();
        multi.insert(V::get_max().to_b(), m);
        full(&t, &mins, "reset")?;
        for k in (0..m).step_by(2) {
            step(&mut t, &mut mins, &mut multi, k, val(300 + (k as u64 % 7)))?;
            steps += 1;
        }
        full(&t, &mins, "F")?;
        Ok(steps)
    });
    match r {
        Ok(x) => x,
        Err(p) => Err(format!("m={}: panic inside the tracker on a legal update sequence: {}", m, p)),
    }
}

/// A NaN is not a value of the order the tracker maintains ("smallest value ever offered"): offering one may be refused
/// (a panic is accepted) but must not be stored - afterwards every slot still holds its minimum, the reported maximum
/// is unchanged, nothing reads as NaN, and NaN is never "possible".  Fresh, half-filled and full trackers, every slot.
fn nan_offers(m: usize) -> Result<u64, String> {
    let mut steps = 0u64;
    for fill in 0..3usize {
        for slot in 0..m {
            let r = guarded_mut(|| -> Result<(), String> {
                let mut t = MaxTracker::<f64>::new(m);
                let mut mins = vec![f64::MAX; m];
                for k in 0..m {
                    if fill == 2 || (fill == 1 && k % 2 == 0) {
                        let v = 10. + ((k * 7) % 5) as f64;
                        t.update(k, v);
                        mins[k] = v;
                    }
                }
                let max_before = t.get_max_value();
                // the offer itself may be refused by a panic
                let _ = std::panic::catch_unwind(std::panic::AssertUnwindSafe(|| t.update(slot, f64::NAN)));
                for k in 0..m {
                    if t.get_value(k).to_bits() != mins[k].to_bits() {
                        return Err(format!("m={}: after update({}, NaN) on a tracker with {} of its slots filled, slot {} holds {:?} instead of {:?}", m, slot, ["none", "half", "all"][fill], k, t.get_value(k), mins[k]));
                    }
                }
                if t.get_max_value().to_bits() != max_before.to_bits() {
                    return Err(format!("m={}: after update({}, NaN) the reported maximum went from {:?} to {:?}", m, slot, max_before, t.get_max_value()));
                }
                if let Ok(true) = std::panic::catch_unwind(std::panic::AssertUnwindSafe(|| t.is_update_possible(f64::NAN))) {
                    return Err(format!("m={}: is_update_possible(NaN) is true", m));
                }
                // and the tracker still works
                t.update(slot, 1.);
                if t.get_value(slot) != 1. {
                    return Err(format!("m={}: after update({}, NaN), update({}, 1.0) leaves {:?} in the slot", m, slot, slot, t.get_value(slot)));
                }
                Ok(())
            });
            steps += 1;
            match r {
                Ok(Ok(())) => {}
                Ok(Err(e)) => return Err(e),
                Err(p) => return Err(format!("m={}: panic around a NaN offer outside the offer itself: {}", m, p)),
            }
        }
    }
    Ok(steps)
}

/// 70000 cycles of (a few updates, reset) on one tracker: after every reset the node array equals a new tracker's
/// (the read-only probe does not perturb the history)
fn long_reset_history<V: TV>(m: usize, val: &dyn Fn(u64) -> V) -> Result<u64, String> {
    let r = guarded_mut(|| -> Result<u64, String> {
        let fresh: Vec<u64> = MaxTracker::<V>::new(m).raw().iter().map(|v| v.to_b()).collect();
        let mut t = MaxTracker::<V>::new(m);
        let mut steps = 0u64;
        for c in 0..70_000u64 {
            for i in 0..3u64 {
                t.update(((c + i) % m as u64) as usize, val(10 + (c * 7 + i * 3) % 23));
                steps += 1;
            }
            t.reset();
            let raw: Vec<u64> = t.raw().iter().map(|v| v.to_b()).collect();
            if raw != fresh || t.get_max_value().to_b() != V::get_max().to_b() {
                return Err(format!("m={}: after {} cycles of (3 updates, reset) the tracker differs from a new one", m, c + 1));
            }
        }
        Ok(steps)
    });
    match r {
        Ok(x) => x,
        Err(p) => Err(format!("m={}: panic in a long history of updates and resets: {}", m, p)),
    }
}

fn large_sizes(ctx: &Ctx, thorough: bool) -> (usize, u64) {
    let mut sizes: Vec<usize> = (9..=300).collect();
    for k in 9..=17u32 {
        for d in [-1i64, 0, 1] {
            sizes.push(((1i64 << k) + d) as usize);
        }
    }
    sizes.extend_from_slice(&[1000, 5000, 50_000, 100_003]);
    if thorough {
        sizes.extend_from_slice(&[(1 << 20) - 1, 1 << 20, (1 << 20) + 1, 3_000_001]);
    }
    sizes.sort();
    sizes.dedup();
    let mut steps = 0u64;
    let mut reported = false;
    for &m in &sizes {
        let a = large_size_history::<f64>(m, &|x| x as f64 * 0.5);
        let b = large_size_history::<u32>(m, &|x| x as u32);
        for (vt, r) in [("f64", a), ("u32", b)] {
            match r {
                Ok(n) => steps += n,
                Err(w) => {
                    if !reported {
                        reported = true;
                        ctx.violation(&format!("large-size:{}", vt), &format!("{} tracker, {}", vt, w), json!({"kind": "large", "vtype": vt, "m": m}));
                    }
                }
            }
        }
    }
    // with a trace-level logger installed (log macros evaluate their arguments only then)
    for m in [1usize, 2, 3, 8, 17, 64] {
        let r = crate::common::with_trace_logging(|| (large_size_history::<f64>(m, &|x| x as f64 * 0.5), large_size_history::<u32>(m, &|x| x as u32)));
        for (vt, r) in [("f64", r.0), ("u32", r.1)] {
            match r {
                Ok(n) => steps += n,
                Err(w) => {
                    if !reported {
                        reported = true;
                        ctx.violation(&format!("logging:{}", vt), &format!("{} tracker with a trace-level logger installed, {}", vt, w), json!({"kind": "logging", "vtype": vt, "m": m}));
                    }
                }
            }
        }
    }
    for m in [1usize, 2, 3, 5, 8] {
        for (vt, r) in [("f64", long_reset_history::<f64>(m, &|x| x as f64 * 0.5)), ("u32", long_reset_history::<u32>(m, &|x| x as u32))] {
            match r {
                Ok(n) => steps += n,
                Err(w) => {
                    if !reported {
                        reported = true;
                        ctx.violation(&format!("long-history:{}", vt), &format!("{} tracker, {}", vt, w), json!({"kind": "long-history", "vtype": vt, "m": m}));
                    }
                }
            }
        }
    }
    // NaN offers
    let mut reported = false;
    for m in (1..=33usize).chain([64, 65, 127, 1000]) {
        match nan_offers(m) {
            Ok(n) => steps += n,
            Err(w) => {
                if !reported {
                    reported = true;
                    ctx.violation("nan-offer", &w, json!({"kind": "nan-offer", "m": m}));
                }
            }
        }
    }
    (sizes.len(), steps)
}

pub fn run(ctx: &Ctx) -> i32 {
    let threads = 16;
    let mut spaces = Vec::new();
    let mut tot_states = 0usize;
    let mut tot_trans = 0usize;
    let mut samples: Vec<Value> = Vec::new();
    // (vtype, m, number of values)
    let mut configs: Vec<(&str, usize, usize)> = Vec::new();
    let max_m4 = ctx.pick(8, 9);
    for m in 1..=max_m4 {
        configs.push(("f64", m, 4));
    }
    for m in 1..=ctx.pick(6, 8) {
        configs.push(("u32", m, 4));
    }
    if !ctx.quick() {
        for m in 1..=6 {
            configs.push(("f64", m, 5));
        }
        configs.push(("f64", 10, 3));
        configs.push(("f64", 11, 3));
        configs.push(("u32", 10, 3));
    }
    for (vt, m, nv) in configs {
        let run2 = |thr: usize| -> SpaceResult {
            if vt == "f64" {
                explore_space::<f64>(m, f64_values(nv), thr)
            } else {
                explore_space::<u32>(m, u32_values(nv), thr)
            }
        };
        let r = run2(threads);
        let expected_closed = (nv as u64).pow(m as u32) as usize;
        let mut consistent = true;
        if r.counterexample.is_none() {
            // the search is run twice (parallel BFS); counts must agree
            let r2 = run2(threads);
            if r2.unique != r.unique || r2.counterexample.is_some() {
                consistent = false;
            }
        }
        if !consistent {
            eprintln!("ENGINE-ERROR C15 two runs of the same search disagree (m={}, {})", m, vt);
            return 2;
        }
        if let Some((acts, why)) = &r.counterexample {
            // validate the counterexample on a fresh tracker built with new(): a plain replay without the explorer
            let (viol, obs) = if vt == "f64" {
                run_sequence::<f64>(m, &f64_values(nv), acts)
            } else {
                run_sequence::<u32>(m, &u32_values(nv), acts)
            };
            if !viol {
                eprintln!(
                    "ENGINE-ERROR C15 counterexample from the state search does not reproduce on a fresh tracker (m={}, {}): {} / {}",
                    m, vt, why, obs
                );
                return 2;
            }
            ctx.violation(
                &format!("space:{}:m={}", vt, m),
                &format!("m={} {}: {} (path of {} actions)", m, vt, obs, acts.len()),
                json!({"kind": "sequence", "vtype": vt, "m": m, "nvalues": nv, "acts": acts_to_json(acts)}),
            );
        } else if r.unique != expected_closed {
            ctx.note(format!(
                "m={} {} nvalues={}: closed at {} states, {}^{}={} expected if every vector of minima is reachable",
                m, vt, nv, r.unique, nv, m, expected_closed
            ));
        }
        tot_states += r.unique;
        tot_trans += r.generated;
        spaces.push(json!({"vtype": vt, "m": m, "nvalues": nv, "unique_states": r.unique, "generated": r.generated,
            "max_depth": r.depth, "closed": r.counterexample.is_none(), "all_minima_vectors_reached": r.unique == expected_closed}));
        println!(
            "C15 space {} m={} nvalues={} unique={} generated={} depth={} {}",
            vt,
            m,
            nv,
            r.unique,
            r.generated,
            r.depth,
            if r.counterexample.is_some() { "COUNTEREXAMPLE" } else { "ok" }
        );
    }
    // independent depth-bounded sequences from new()
    let mut stats = (0u64, 0u64);
    let seqs: Vec<(usize, usize)> = if ctx.quick() { vec![(1, 6), (2, 5), (3, 4), (5, 3)] } else { vec![(1, 8), (2, 6), (3, 5), (4, 4), (5, 4), (7, 3)] };
    for (m, d) in &seqs {
        direct_sequences::<f64>(ctx, *m, &f64_values(4), *d, &mut stats);
        direct_sequences::<u32>(ctx, *m, &u32_values(4), *d, &mut stats);
    }
    let (nsizes, lsteps) = large_sizes(ctx, !ctx.quick());
    println!("C15 large sizes: {} sizes, {} checked steps", nsizes, lsteps);
    samples.push(json!({"large_size_history": {"m": 32769, "phases": ["A ascending distinct", "B descending lower", "C every third + no-op", "D ties in stride order", "E last slot standing", "reset", "F half of the slots"]}}));
    samples.push(json!({"space": "f64 m=3", "actions_per_state": "update(k,v) for k in 0..3, v in {0.5,1.0,1.5,f64::MAX}; reset",
        "example_path": ["update(2,1.5)", "update(0,0.5)", "update(2,1.0)", "reset"]}));
    samples.push(json!({"direct_sequence": {"m": 2, "acts": acts_to_json(&[Act::Update(1, 2), Act::Update(0, 0), Act::Update(1, 1), Act::Reset])}}));
    let coverage = json!({
        "states": tot_states,
        "transitions": tot_trans,
        "traces_validated_against_impl": tot_trans as u64 + stats.0 + nsizes as u64 * 2,
        "samples": samples,
        "exhaustive": true,
        "evaluations": tot_trans as u64 + stats.1 + lsteps,
        "distinct_nontrivial": tot_states,
        "rule": "stateright BFS to a fixed point over (node array, reference minima); every transition re-materialises the real tracker from the node array, applies the real update/reset and reads the node array back; a state is distinct by its node array; invariants: slots = reference minima, each internal node = max of children, root = max of slots, is_update_possible(v) <=> v < max, no internal assertion fires",
        "spaces": spaces,
        "direct_sequences_from_new": {"sequences": stats.0, "steps": stats.1, "configs_m_depth": seqs},
        "search_run_twice_counts_equal": true,
        "large_sizes": {"sizes": nsizes, "checked_steps": lsteps, "what": "every m in 9..=300, 2^k-1,2^k,2^k+1 for k=9..17, 1000, 5000, 50000, 100003 (thorough: 2^20-1..2^20+1, 3000001): one structured 6-phase history per size and value type from new(), every update checked (slot value, reported max against an ordered multiset of slot minima, is_update_possible), whole node array checked after each phase; plus 70000 cycles of (3 updates, reset) for m in {1,2,3,5,8} with the node array compared with a new tracker after every reset; the six-phase history again for m in {1,2,3,8,17,64} with a trace-level logger installed; NaN offered to every slot of fresh / half-filled / full f64 trackers for m in 1..33, 64, 65, 127, 1000 (it may be refused but is never stored); not exhaustive in the history"},
    });
    ctx.finish(
        "model_checking",
        coverage,
        vec![
            "hook H1 (verif::MaxTracker) forwards to the crate-private MaxValueTracker without altering it".into(),
            "values outside the alphabet {0.5,1.0,1.5,2.0,MAX} (resp. {0,1,2,3,MAX}) behave like values inside it: the tracker only compares".into(),
            "slot counts above the exhaustively explored bound are covered by one structured history per size only (sizes listed under large_sizes)".into(),
        ],
    )
}

pub fn replay(_ctx: &Ctx, case: &Value) -> Result<(bool, String), String> {
    if case["kind"].as_str() == Some("nan-offer") {
        let m = case["m"].as_u64().ok_or("m")? as usize;
        return Ok(match nan_offers(m) {
            Ok(_) => (false, "NaN offers are no-ops".into()),
            Err(w) => (true, w),
        });
    }
    let m = case["m"].as_u64().ok_or("m")? as usize;
    if case["kind"].as_str() == Some("logging") {
        let r = crate::common::with_trace_logging(|| if case["vtype"].as_str() == Some("f64") { large_size_history::<f64>(m, &|x| x as f64 * 0.5) } else { large_size_history::<u32>(m, &|x| x as u32) });
        return Ok(match r {
            Ok(n) => (false, format!("{} steps fine", n)),
            Err(w) => (true, w),
        });
    }
    if case["kind"].as_str() == Some("long-history") {
        let r = if case["vtype"].as_str() == Some("f64") { long_reset_history::<f64>(m, &|x| x as f64 * 0.5) } else { long_reset_history::<u32>(m, &|x| x as u32) };
        return Ok(match r {
            Ok(n) => (false, format!("{} steps fine", n)),
            Err(w) => (true, w),
        });
    }
    if case["kind"].as_str() == Some("large") {
        let r = if case["vtype"].as_str() == Some("f64") { large_size_history::<f64>(m, &|x| x as f64 * 0.5) } else { large_size_history::<u32>(m, &|x| x as u32) };
        return Ok(match r {
            Ok(n) => (false, format!("{} steps fine", n)),
            Err(w) => (true, w),
        });
    }
    let nv = case["nvalues"].as_u64().ok_or("nvalues")? as usize;
    let acts = acts_from_json(&case["acts"])?;
    match case["vtype"].as_str() {
        Some("f64") => Ok(run_sequence::<f64>(m, &f64_values(nv), &acts)),
        Some("u32") => Ok(run_sequence::<u32>(m, &u32_values(nv), &acts)),
        _ => Err("vtype".into()),
    }
}
