//! C11 — ProbOrdMinHash2 selects per position independently of sequence order.
//! Engine A: every sequence up to a length over a 4-letter alphabet (repeats included), all permutations of every
//! multiset, histories of earlier calls, through hook H4 (selected (index, value) pairs per position).

use crate::common::{guarded_mut, Ctx};
use fnv::FnvHasher;
use probminhash::probminhasher::probordminhash2::ProbOrdMinHash2;
use rayon::prelude::*;
use serde_json::{json, Value};
use std::collections::{BTreeMap, BTreeSet, HashMap};

pub const FIXED_SEED: u64 = 0x5eed_0bad_cafe_f00d;

pub type Pair = (u32, u32); // (element, occurrence number starting at 1)

#[derive(Clone, Debug, PartialEq)]
pub struct Run {
    pub sig: Vec<u64>,
    /// per position: selected (element, occurrence) pairs as a sorted set
    pub selected: Vec<BTreeSet<Pair>>,
    /// per position: the elements of the selected pairs in sequence order
    pub spelled: Vec<Vec<u32>>,
    /// per position: (pair, race value) in increasing race value order
    pub races: Vec<Vec<(Pair, u64)>>,
}

pub fn occurrences(seq: &[u32]) -> Vec<u32> {
    let mut cnt: HashMap<u32, u32> = HashMap::new();
    seq.iter()
        .map(|e| {
            let c = cnt.entry(*e).or_insert(0);
            *c += 1;
            *c
        })
        .collect()
}

/// run hash_set on an existing instance and decode the H4 snapshot
pub fn run_on<H: std::hash::Hasher + Default>(h: &mut ProbOrdMinHash2<H>, m: usize, l: usize, seq: &[u32]) -> Result<Run, String> {
    let sig = h.hash_set(seq);
    decode(h, sig, m, l, seq)
}

/// decode the H4 snapshot of the last hash_set call; `seq` are the symbols as the harness names them
pub fn decode<H: std::hash::Hasher + Default>(h: &ProbOrdMinHash2<H>, sig: Vec<u64>, m: usize, l: usize, seq: &[u32]) -> Result<Run, String> {
    let (idx, vals) = h.verif_selected();
    if sig.len() != m || idx.len() != m * l || vals.len() != m * l {
        return Err(format!("unexpected sizes: sig {} idx {} vals {}", sig.len(), idx.len(), vals.len()));
    }
    let occ = occurrences(seq);
    let mut selected = Vec::with_capacity(m);
    let mut spelled = Vec::with_capacity(m);
    let mut races = Vec::with_capacity(m);
    for k in 0..m {
        let mut set = BTreeSet::new();
        let mut ids: Vec<usize> = Vec::new();
        let mut rc = Vec::new();
        for j in 0..l {
            let i = idx[k * l + j];
            if i == u64::MAX || i as usize >= seq.len() {
                return Err(format!("position {} has no item in slot {} (index {})", k, j, i));
            }
            let i = i as usize;
            set.insert((seq[i], occ[i]));
            ids.push(i);
            rc.push(((seq[i], occ[i]), vals[k * l + j].to_bits()));
        }
        if set.len() != l {
            return Err(format!("position {} selected the same (element, occurrence) pair twice: {:?}", k, rc));
        }
        ids.sort();
        selected.push(set);
        spelled.push(ids.iter().map(|i| seq[*i]).collect());
        races.push(rc);
    }
    Ok(Run { sig, selected, spelled, races })
}

pub fn fresh_h<H: std::hash::Hasher + Default>(m: usize, l: usize) -> ProbOrdMinHash2<H> {
    let mut h = ProbOrdMinHash2::<H>::new(m as u32, l);
    h.verif_set_seed(FIXED_SEED);
    h
}

pub fn fresh(m: usize, l: usize) -> ProbOrdMinHash2<FnvHasher> {
    fresh_h::<FnvHasher>(m, l)
}

/// element symbols are encoded before hashing: identity for Fnv; for the no-op hasher (which byte-swaps 4-byte items on
/// little-endian machines) the encoding makes the hashes of the symbols the adjacent integers 1, 2, 3, ...; a second
/// no-op encoding gives the symbols 64-bit hashes that agree on their low halves, their high halves or their xor-fold
/// (pre-hashed data whose hashes collide on every natural 32-bit projection without being equal)
pub trait Enc: std::hash::Hasher + Default {
    type Item: std::hash::Hash + Eq + Clone + Send + Sync + std::panic::RefUnwindSafe + std::panic::UnwindSafe + 'static;
    fn enc(e: u32) -> Self::Item;
    fn label() -> &'static str;
    /// the element a symbol stands for: symbols whose items have the same hash are one element for the sketcher (its
    /// occurrence counter and the signature only ever see hashes)
    fn class(e: u32) -> u32 {
        e
    }
}
impl Enc for FnvHasher {
    type Item = u32;
    fn enc(e: u32) -> u32 {
        e
    }
    fn label() -> &'static str {
        "Fnv"
    }
}
impl Enc for probminhash::nohasher::NoHashHasher {
    type Item = u32;
    fn enc(e: u32) -> u32 {
        (e + 1).swap_bytes()
    }
    fn label() -> &'static str {
        "NoHash(adjacent hashes)"
    }
}
/// the no-op hasher again (a distinct type so that it can carry another encoding)
#[derive(Default)]
pub struct NoHash64(probminhash::nohasher::NoHashHasher);
impl std::hash::Hasher for NoHash64 {
    fn write(&mut self, bytes: &[u8]) {
        self.0.write(bytes)
    }
    fn finish(&self) -> u64 {
        self.0.finish()
    }
}
pub const STRUCTURED_HASHES: [u64; 6] = [1, 1 << 32, (1 << 32) | 1, (1 << 63) | 1, 1 << 16, (1 << 48) | (1 << 16)];
impl Enc for NoHash64 {
    type Item = u64;
    fn enc(e: u32) -> u64 {
        // NoHashHasher reads the 8 bytes of a u64 big-endian
        let h = if (e as usize) < STRUCTURED_HASHES.len() { STRUCTURED_HASHES[e as usize] } else { 0x9e37_79b9_0000_0000u64 + e as u64 };
        h.swap_bytes()
    }
    fn label() -> &'static str {
        "NoHash64(structured hashes)"
    }
}

/// items that are NOT equal but hash alike (legal for Hash/Eq): two tags per class, only the class is hashed
#[derive(Clone, Debug, PartialEq, Eq)]
pub struct TaggedKey {
    class: u32,
    tag: u32,
}
impl std::hash::Hash for TaggedKey {
    fn hash<S: std::hash::Hasher>(&self, state: &mut S) {
        state.write_u32(self.class);
    }
}
/// Fnv again (a distinct type so that it can carry the tagged-key encoding)
#[derive(Default)]
pub struct FnvTagged(FnvHasher);
impl std::hash::Hasher for FnvTagged {
    fn write(&mut self, bytes: &[u8]) {
        self.0.write(bytes)
    }
    fn finish(&self) -> u64 {
        self.0.finish()
    }
}
impl Enc for FnvTagged {
    type Item = TaggedKey;
    fn enc(e: u32) -> TaggedKey {
        TaggedKey { class: e / 2, tag: e % 2 }
    }
    fn label() -> &'static str {
        "FnvTagged(unequal items with equal hashes)"
    }
    fn class(e: u32) -> u32 {
        e / 2
    }
}

pub fn run_fresh_h<H: Enc>(m: usize, l: usize, seq: &[u32]) -> Result<Run, String> {
    let enc: Vec<H::Item> = seq.iter().map(|e| H::enc(*e)).collect();
    let plain: Vec<u32> = seq.iter().map(|e| H::class(*e)).collect();
    match guarded_mut(move || {
        let mut h = fresh_h::<H>(m, l);
        // run on the encoded items, decode the snapshot with the plain symbols
        let sig = h.hash_set(&enc);
        decode(&h, sig, m, l, &plain)
    }) {
        Ok(r) => r,
        Err(p) => Err(format!("panic: {}", p)),
    }
}

pub fn run_fresh(m: usize, l: usize, seq: &[u32]) -> Result<Run, String> {
    run_fresh_h::<FnvHasher>(m, l, seq)
}

/// race table of every (element, occurrence<=maxocc): value (bits) at each position, taken from the real code:
/// the run [e; c] on an instance with l = c keeps every pair at every position
pub fn race_tables(m: usize, elements: &[u32], maxocc: usize) -> Result<BTreeMap<Pair, Vec<f64>>, String> {
    race_tables_h::<FnvHasher>(m, elements, maxocc)
}

pub fn race_tables_h<H: Enc>(m: usize, elements: &[u32], maxocc: usize) -> Result<BTreeMap<Pair, Vec<f64>>, String> {
    let mut out = BTreeMap::new();
    for &e in elements {
        let c = maxocc;
        let seq = vec![e; c];
        let r = run_fresh_h::<H>(m, c, &seq)?;
        for k in 0..m {
            for (pair, bits) in &r.races[k] {
                out.entry(*pair).or_insert_with(|| vec![f64::NAN; m])[k] = f64::from_bits(*bits);
            }
        }
    }
    for (p, t) in &out {
        if t.iter().any(|v| v.is_nan()) {
            return Err(format!("race table of {:?} incomplete: {:?}", p, t));
        }
    }
    Ok(out)
}

fn all_sequences(alpha: u32, len: usize) -> Vec<Vec<u32>> {
    let mut out: Vec<Vec<u32>> = vec![vec![]];
    for _ in 0..len {
        let mut next = Vec::with_capacity(out.len() * alpha as usize);
        for s in &out {
            for a in 0..alpha {
                let mut t = s.clone();
                t.push(a);
                next.push(t);
            }
        }
        out = next;
    }
    out
}

static SAMPLES: std::sync::Mutex<Vec<Value>> = std::sync::Mutex::new(Vec::new());

#[derive(Default)]
struct Stats {
    calls: u64,
    sequences: u64,
    groups: u64,
    multi_perm_groups: u64,
    reject_then_accept: u64,
    distinct_sigs: u64,
    history_runs: u64,
    reseeded_runs: u64,
    reseeded_changed: u64,
}

struct Finding {
    key: String,
    what: String,
    case: Value,
}

/// all checks for one (alphabet, length, m, l)
fn check_config<H: Enc>(alpha: u32, len: usize, m: usize, l: usize, history_pool: &[Vec<u32>], st: &mut Stats) -> Vec<Finding> {
    let mut findings: Vec<Finding> = Vec::new();
    let seqs = all_sequences(alpha, len);
    // one symbol per element class
    let elements: Vec<u32> = (0..alpha).filter(|e| (0..*e).all(|f| H::class(f) != H::class(*e))).collect();
    let tables = match race_tables_h::<H>(m, &elements, len.max(1)) {
        Ok(t) => t,
        Err(e) => {
            findings.push(Finding { key: "race-table".into(), what: format!("m={} cannot extract race tables: {}", m, e), case: json!({"kind": "tables", "m": m, "len": len, "alpha": alpha}) });
            return findings;
        }
    };
    let runs: Vec<(Vec<u32>, Result<Run, String>)> = seqs.par_iter().map(|s| (s.clone(), run_fresh_h::<H>(m, l, s))).collect();
    st.calls += runs.len() as u64;
    st.sequences += runs.len() as u64;
    let mut groups: BTreeMap<Vec<u32>, Vec<usize>> = BTreeMap::new();
    for (i, (s, _)) in runs.iter().enumerate() {
        let mut key: Vec<u32> = s.iter().map(|e| H::class(*e)).collect();
        key.sort();
        groups.entry(key).or_default().push(i);
    }
    st.groups += groups.len() as u64;
    let case_of = |s: &[u32], t: &[u32]| json!({"kind": "pair", "hasher": H::label(), "m": m, "l": l, "seq1": s, "seq2": t});
    // tuple -> signature value must be a function, and injective
    let mut tuple_to_val: HashMap<Vec<u32>, u64> = HashMap::new();
    let mut val_to_tuple: HashMap<u64, Vec<u32>> = HashMap::new();
    let mut sigs: BTreeSet<Vec<u64>> = BTreeSet::new();
    for (_, idxs) in groups.iter() {
        if idxs.len() > 1 {
            st.multi_perm_groups += 1;
        }
        let (s0, r0) = &runs[idxs[0]];
        let r0 = match r0 {
            Ok(r) => r,
            Err(e) => {
                findings.push(Finding { key: "hash_set-failure".into(), what: format!("m={} l={} sequence {:?}: {}", m, l, s0, e), case: case_of(s0, s0) });
                continue;
            }
        };
        // selection = the l pairs with the smallest race value (tables from the real code)
        let c0: Vec<u32> = s0.iter().map(|e| H::class(*e)).collect();
        let occ0 = occurrences(&c0);
        let pairs0: BTreeSet<Pair> = c0.iter().zip(occ0.iter()).map(|(e, o)| (*e, *o)).collect();
        for k in 0..m {
            let mut byval: Vec<(f64, Pair)> = pairs0.iter().map(|p| (tables[p][k], *p)).collect();
            byval.sort_by(|a, b| a.0.partial_cmp(&b.0).unwrap());
            let tie = byval.len() > l && byval[l - 1].0 == byval[l].0;
            let want: BTreeSet<Pair> = byval.iter().take(l).map(|x| x.1).collect();
            if !tie && want != r0.selected[k] {
                findings.push(Finding {
                    key: "selection-not-l-smallest".into(),
                    what: format!("m={} l={} sequence {:?} position {}: selected {:?}, the {} pairs with the smallest race values are {:?}", m, l, s0, k, r0.selected[k], l, want),
                    case: case_of(s0, s0),
                });
                break;
            }
        }
        // non-vacuity: a pair rejected at an earlier-visited position and accepted at a later one
        for p in pairs0.iter() {
            let t = &tables[p];
            let mut order: Vec<usize> = (0..m).collect();
            order.sort_by(|a, b| t[*a].partial_cmp(&t[*b]).unwrap());
            let mut rejected_before = false;
            for &k in &order {
                if r0.selected[k].contains(p) {
                    if rejected_before {
                        st.reject_then_accept += 1;
                        break;
                    }
                } else {
                    rejected_before = true;
                }
            }
        }
        for &i in idxs.iter() {
            let (s, r) = &runs[i];
            let r = match r {
                Ok(r) => r,
                Err(e) => {
                    findings.push(Finding { key: "hash_set-failure".into(), what: format!("m={} l={} sequence {:?}: {}", m, l, s, e), case: case_of(s, s) });
                    continue;
                }
            };
            sigs.insert(r.sig.clone());
            if r.selected != r0.selected {
                let k = (0..m).find(|k| r.selected[*k] != r0.selected[*k]).unwrap();
                findings.push(Finding {
                    key: "selection-depends-on-order".into(),
                    what: format!(
                        "m={} l={}: sequences {:?} and {:?} are permutations of each other but position {} selects {:?} vs {:?}",
                        m, l, s0, s, k, r0.selected[k], r.selected[k]
                    ),
                    case: case_of(s0, s),
                });
            }
            if l == 1 && r.sig != r0.sig {
                findings.push(Finding {
                    key: "l1-signature-depends-on-order".into(),
                    what: format!("m={} l=1: signatures of {:?} and its permutation {:?} differ", m, s0, s),
                    case: case_of(s0, s),
                });
            }
            for k in 0..m {
                let tup = r.spelled[k].clone();
                let v = r.sig[k];
                if let Some(prev) = tuple_to_val.get(&tup) {
                    if *prev != v {
                        findings.push(Finding {
                            key: "signature-not-function-of-ordered-elements".into(),
                            what: format!("m={} l={} sequence {:?} position {}: elements in sequence order {:?} signed {:#x}, elsewhere the same tuple signed {:#x}", m, l, s, k, tup, v, prev),
                            case: case_of(s0, s),
                        });
                    }
                } else {
                    tuple_to_val.insert(tup.clone(), v);
                }
                if let Some(prev) = val_to_tuple.get(&v) {
                    if *prev != tup {
                        findings.push(Finding {
                            key: "signature-collision".into(),
                            what: format!("m={} l={}: different element tuples {:?} and {:?} give the same signature value {:#x}", m, l, prev, tup, v),
                            case: case_of(s0, s),
                        });
                    }
                } else {
                    val_to_tuple.insert(v, tup);
                }
            }
        }
        if findings.len() > 40 {
            break;
        }
    }
    st.distinct_sigs += sigs.len() as u64;
    if let Some((s, Ok(r))) = runs.iter().find(|(s, _)| s.len() >= 3 && s[0] != s[1]) {
        SAMPLES.lock().unwrap().push(json!({"m": m, "l": l, "sequence": s, "selected_pairs_per_position": r.selected.iter().map(|x| x.iter().collect::<Vec<_>>()).collect::<Vec<_>>(), "signature": r.sig.iter().map(|v| format!("{:#x}", v)).collect::<Vec<_>>()}));
    }
    // history independence: 0, 1 or 2 earlier hash_set calls on the same instance
    let targets: Vec<&Vec<u32>> = seqs.iter().step_by((seqs.len() / 64).max(1)).collect();
    let mut hist_lists: Vec<Vec<&Vec<u32>>> = Vec::new();
    // earlier calls include refused ones (sequence shorter than l: the call panics, the caller catches it and goes on)
    for a in history_pool.iter() {
        hist_lists.push(vec![a]);
        for b in history_pool.iter() {
            hist_lists.push(vec![a, b]);
        }
    }
    let hres: Vec<Option<Finding>> = targets
        .par_iter()
        .map(|t| {
            let base = match run_fresh_h::<H>(m, l, t) {
                Ok(r) => r,
                Err(_) => return None,
            };
            for hl in &hist_lists {
                let tt = (*t).clone();
                let hl2: Vec<Vec<u32>> = hl.iter().map(|x| (*x).clone()).collect();
                let r = guarded_mut(move || {
                    let mut h = fresh_h::<H>(m, l);
                    for x in &hl2 {
                        let ex: Vec<H::Item> = x.iter().map(|e| H::enc(*e)).collect();
                        // a refused call (too short) panics: caught, and the instance is used again
                        let _ = guarded_mut(|| h.hash_set(&ex));
                    }
                    let et: Vec<H::Item> = tt.iter().map(|e| H::enc(*e)).collect();
                    let sig = h.hash_set(&et);
                    let ct: Vec<u32> = tt.iter().map(|e| H::class(*e)).collect();
                    decode(&h, sig, m, l, &ct)
                });
                let bad = match r {
                    Ok(Ok(r)) => r.sig != base.sig || r.selected != base.selected,
                    _ => true,
                };
                if bad {
                    return Some(Finding {
                        key: "depends-on-earlier-calls".into(),
                        what: format!("m={} l={}: hash_set({:?}) after earlier calls {:?} on the same instance differs from the first-call result", m, l, t, hl),
                        case: json!({"kind": "history", "hasher": H::label(), "m": m, "l": l, "history": hl, "seq": t}),
                    });
                }
            }
            None
        })
        .collect();
    st.history_runs += (targets.len() * hist_lists.len()) as u64;
    st.calls += (targets.len() * hist_lists.len() * 2) as u64;
    findings.extend(hres.into_iter().flatten());
    findings
}

/// The public way to change the seed, `change_rng_seed()` (it draws from ThreadRng, so the seed differs from run to run):
/// on one instance reseeded `reseeds` times, every oracle of this property that does not need the seed's value must
/// still hold - permutations of a multiset select the same pairs, the l smallest race values win (tables re-read from
/// the real code under the seed the instance reports), one injective tuple -> value map, a repeated call is identical.
fn reseeded_pass<H: Enc>(alpha: u32, len: usize, m: usize, l: usize, reseeds: usize, st: &mut Stats) -> Vec<Finding> {
    let mut findings: Vec<Finding> = Vec::new();
    let seqs = all_sequences(alpha, len);
    let case_of = |s: &[u32], t: &[u32]| json!({"kind": "reseeded", "hasher": H::label(), "m": m, "l": l, "reseeds": reseeds, "alpha": alpha, "len": len, "seq1": s, "seq2": t});
    let r = guarded_mut(move || {
        let mut h = ProbOrdMinHash2::<H>::new(m as u32, l);
        let default_seed = h.verif_seed();
        for _ in 0..reseeds {
            h.change_rng_seed();
        }
        let seed = h.verif_seed();
        let mut runs: Vec<(Vec<u32>, Result<Run, String>, bool)> = Vec::new();
        for s in &seqs {
            let enc: Vec<H::Item> = s.iter().map(|e| H::enc(*e)).collect();
            let plain: Vec<u32> = s.iter().map(|e| H::class(*e)).collect();
            let sig = h.hash_set(&enc);
            let run = decode(&h, sig.clone(), m, l, &plain);
            let again = h.hash_set(&enc);
            runs.push((s.clone(), run, again == sig));
        }
        (default_seed, seed, runs)
    });
    let (default_seed, seed, runs) = match r {
        Ok(x) => x,
        Err(p) => {
            findings.push(Finding { key: "reseeded:panic".into(), what: format!("m={} l={} after {} change_rng_seed(): panic {}", m, l, reseeds, p), case: case_of(&[], &[]) });
            return findings;
        }
    };
    if seed != default_seed {
        st.reseeded_changed += 1;
    }
    st.calls += 2 * runs.len() as u64;
    st.reseeded_runs += runs.len() as u64;
    // race tables under the reported seed, from instances with l = occurrences
    let elements: Vec<u32> = (0..alpha).filter(|e| (0..*e).all(|f| H::class(f) != H::class(*e))).collect();
    let mut tables: BTreeMap<Pair, Vec<f64>> = BTreeMap::new();
    for &e in &elements {
        let c = len.max(1);
        let enc: Vec<H::Item> = vec![H::enc(e); c];
        let plain: Vec<u32> = vec![H::class(e); c];
        let r = guarded_mut(move || {
            let mut h = ProbOrdMinHash2::<H>::new(m as u32, c);
            h.verif_set_seed(seed);
            let sig = h.hash_set(&enc);
            decode(&h, sig, m, c, &plain)
        });
        if let Ok(Ok(r)) = r {
            for k in 0..m {
                for (pair, bits) in &r.races[k] {
                    tables.entry(*pair).or_insert_with(|| vec![f64::NAN; m])[k] = f64::from_bits(*bits);
                }
            }
        }
    }
    let mut groups: BTreeMap<Vec<u32>, Vec<usize>> = BTreeMap::new();
    for (i, (s, _, _)) in runs.iter().enumerate() {
        let mut key: Vec<u32> = s.iter().map(|e| H::class(*e)).collect();
        key.sort();
        groups.entry(key).or_default().push(i);
    }
    let mut tuple_to_val: HashMap<Vec<u32>, u64> = HashMap::new();
    let mut val_to_tuple: HashMap<u64, Vec<u32>> = HashMap::new();
    for (_, idxs) in groups.iter() {
        let (s0, r0, _) = &runs[idxs[0]];
        let r0 = match r0 {
            Ok(r) => r,
            Err(e) => {
                findings.push(Finding { key: "reseeded:hash_set-failure".into(), what: format!("m={} l={} after {} change_rng_seed(): sequence {:?}: {}", m, l, reseeds, s0, e), case: case_of(s0, s0) });
                continue;
            }
        };
        let c0: Vec<u32> = s0.iter().map(|e| H::class(*e)).collect();
        let occ0 = occurrences(&c0);
        let pairs0: BTreeSet<Pair> = c0.iter().zip(occ0.iter()).map(|(e, o)| (*e, *o)).collect();
        if pairs0.iter().all(|p| tables.get(p).map(|t| t.iter().all(|v| !v.is_nan())).unwrap_or(false)) {
            for k in 0..m {
                let mut byval: Vec<(f64, Pair)> = pairs0.iter().map(|p| (tables[p][k], *p)).collect();
                byval.sort_by(|a, b| a.0.partial_cmp(&b.0).unwrap());
                let tie = byval.len() > l && byval[l - 1].0 == byval[l].0;
                let want: BTreeSet<Pair> = byval.iter().take(l).map(|x| x.1).collect();
                if !tie && want != r0.selected[k] {
                    findings.push(Finding {
                        key: "reseeded:selection-not-l-smallest".into(),
                        what: format!("m={} l={} after {} change_rng_seed() (seed {:#x}): sequence {:?} position {}: selected {:?}, the {} smallest race values belong to {:?}", m, l, reseeds, seed, s0, k, r0.selected[k], l, want),
                        case: case_of(s0, s0),
                    });
                    break;
                }
            }
        } else {
            findings.push(Finding { key: "reseeded:race-table".into(), what: format!("m={} l={} seed {:#x}: race tables incomplete for {:?}", m, l, seed, s0), case: case_of(s0, s0) });
        }
        for &i in idxs.iter() {
            let (s, r, same_again) = &runs[i];
            if !*same_again {
                findings.push(Finding { key: "reseeded:repeat-differs".into(), what: format!("m={} l={} after {} change_rng_seed(): two consecutive hash_set({:?}) calls on the instance differ", m, l, reseeds, s), case: case_of(s, s) });
            }
            let r = match r {
                Ok(r) => r,
                Err(e) => {
                    findings.push(Finding { key: "reseeded:hash_set-failure".into(), what: format!("m={} l={} after {} change_rng_seed(): sequence {:?}: {}", m, l, reseeds, s, e), case: case_of(s, s) });
                    continue;
                }
            };
            if r.selected != r0.selected || (l == 1 && r.sig != r0.sig) {
                findings.push(Finding {
                    key: "reseeded:selection-depends-on-order".into(),
                    what: format!("m={} l={} after {} change_rng_seed(): permutations {:?} and {:?} select {:?} vs {:?} (signatures {:x?} vs {:x?})", m, l, reseeds, s0, s, r0.selected, r.selected, r0.sig, r.sig),
                    case: case_of(s0, s),
                });
            }
            for k in 0..m {
                let tup = r.spelled[k].clone();
                let v = r.sig[k];
                match tuple_to_val.get(&tup) {
                    Some(prev) if *prev != v => findings.push(Finding {
                        key: "reseeded:signature-not-function-of-ordered-elements".into(),
                        what: format!("m={} l={} after {} change_rng_seed(): sequence {:?} position {}: tuple {:?} signed {:#x}, elsewhere {:#x}", m, l, reseeds, s, k, tup, v, prev),
                        case: case_of(s0, s),
                    }),
                    Some(_) => {}
                    None => {
                        tuple_to_val.insert(tup.clone(), v);
                    }
                }
                match val_to_tuple.get(&v) {
                    Some(prev) if *prev != tup => findings.push(Finding {
                        key: "reseeded:signature-collision".into(),
                        what: format!("m={} l={} after {} change_rng_seed(): tuples {:?} and {:?} share the value {:#x}", m, l, reseeds, prev, tup, v),
                        case: case_of(s0, s),
                    }),
                    Some(_) => {}
                    None => {
                        val_to_tuple.insert(v, tup);
                    }
                }
            }
        }
        if findings.len() > 20 {
            break;
        }
    }
    findings
}

pub fn run(ctx: &Ctx) -> i32 {
    let mut st = Stats::default();
    let pool: Vec<Vec<u32>> = vec![vec![0, 1, 2, 3], vec![3, 3, 3], vec![2, 0, 2, 1, 0, 3, 3, 1], vec![1], vec![0, 0, 1, 1, 2, 2, 9, 8, 7], vec![5, 4], vec![]];
    let max_len = ctx.pick(6usize, 8);
    let ms: Vec<usize> = ctx.pick(vec![1, 2, 4, 16], vec![1, 2, 3, 4, 8, 16, 33]);
    let mut configs = 0u64;
    // l = 4 .. 6 too: small-l code paths (hand-written sorting networks, unrolled loops) end at different l
    for &l in &[1usize, 2, 3, 4, 5, 6] {
        for &m in &ms {
            for len in l..=max_len {
                let alpha = if len <= 6 && !ctx.quick() { 5 } else { 4 };
                configs += 1;
                let f = check_config::<FnvHasher>(alpha, len, m, l, &pool, &mut st);
                for x in f {
                    ctx.violation(&x.key, &x.what, x.case);
                }
                // pass-through hasher, 64-bit item hashes that collide on their halves / xor-fold, shorter sequences
                if len <= max_len - 2 || (len <= max_len - 1 && m <= 4) {
                    configs += 1;
                    let f = check_config::<NoHash64>(4, len, m, l, &pool, &mut st);
                    for x in f {
                        ctx.violation(&format!("{}:nohash64", x.key), &format!("[no-op hasher, item hashes 1, 2^32, 2^32+1, 2^63+1] {}", x.what), x.case);
                    }
                }
                // items that are unequal but hash alike (two tags per element), short sequences
                if len <= 5 && m <= 4 {
                    configs += 1;
                    let f = check_config::<FnvTagged>(4, len, m, l, &pool, &mut st);
                    for x in f {
                        ctx.violation(&format!("{}:tagged", x.key), &format!("[items (class, tag) hashed by class only: symbols 2c and 2c+1 are unequal items with one hash] {}", x.what), x.case);
                    }
                }
                // pass-through hasher with adjacent item hashes (pre-hashed data), shorter sequences
                if len <= max_len - 1 {
                    configs += 1;
                    let f = check_config::<probminhash::nohasher::NoHashHasher>(4, len, m, l, &pool, &mut st);
                    for x in f {
                        ctx.violation(&format!("{}:nohash", x.key), &format!("[no-op hasher, item hashes 1,2,3,4] {}", x.what), x.case);
                    }
                }
            }
        }
    }
    // instances reseeded through the public change_rng_seed()
    for &l in &[1usize, 2, 3, 4, 5] {
        for &m in &[1usize, 2, 4, 5] {
            for len in l..=ctx.pick(5usize, 6) {
                for reseeds in 1..=2usize {
                    configs += 2;
                    for x in reseeded_pass::<FnvHasher>(3, len, m, l, reseeds, &mut st) {
                        ctx.violation(&x.key, &x.what, x.case);
                    }
                    for x in reseeded_pass::<probminhash::nohasher::NoHashHasher>(3, len, m, l, reseeds, &mut st) {
                        ctx.violation(&format!("{}:nohash", x.key), &format!("[no-op hasher] {}", x.what), x.case);
                    }
                }
            }
        }
    }
    if st.reseeded_changed == 0 {
        ctx.violation("reseeded:seed-unchanged", "change_rng_seed() never changed the seed reported by the instance", json!({"kind": "reseeded-unchanged"}));
    }
    for (i, sv) in SAMPLES.lock().unwrap().iter().enumerate() {
        if i % 17 == 5 {
            ctx.sample(sv.clone());
        }
    }
    println!(
        "C11 configs={} hash_set calls={} sequences={} multiset groups={} (with >1 permutation: {}) reject-then-accept events={} distinct signatures={} history runs={}",
        configs, st.calls, st.sequences, st.groups, st.multi_perm_groups, st.reject_then_accept, st.distinct_sigs, st.history_runs
    );
    let coverage = json!({
        "states": st.distinct_sigs,
        "transitions": st.calls,
        "traces_validated_against_impl": st.calls,
        "samples": [
            {"pair": {"m": 4, "l": 1, "seq1": [0, 1, 2, 3], "seq2": [3, 2, 1, 0]}},
            {"pair": {"m": 16, "l": 2, "seq1": [0, 0, 1, 2], "seq2": [0, 1, 0, 2]}},
            {"history": {"m": 2, "l": 3, "history": [[3, 3, 3], [0, 1, 2, 3]], "seq": [1, 1, 0, 2]}}
        ],
        "exhaustive": true,
        "evaluations": st.calls,
        "distinct_nontrivial": st.distinct_sigs,
        "rule": "every sequence of length l..6 (8 thorough) over a 4-letter (5 for short lengths, thorough) alphabet, l in {1,..,6}, m in {1,2,4,16} (+3,8,33), with the Fnv hasher, with the no-op hasher on items whose hashes are the adjacent integers 1..4, and with the no-op hasher on 64-bit items whose hashes {1, 2^32, 2^32+1, 2^63+1} agree pairwise on their low halves, high halves or xor-fold, and (short sequences) with items that are unequal but hash alike (two tags per element; equal hashes are one element to the sketcher), grouped by multiset: the set of selected (element,occurrence) pairs per position (hook H4) must be identical across all permutations of a multiset and equal the l pairs with the smallest race value (race tables read from the real code on single-element runs); the signature value must be one injective function of the selected elements in sequence order; for l=1 the signature is permutation invariant; results do not depend on 1-2 earlier calls on the instance, including refused calls on sequences shorter than l whose panic is caught; distinct = distinct signatures",
        "configs": configs,
        "sequences": st.sequences,
        "multiset_groups": st.groups,
        "groups_with_several_permutations": st.multi_perm_groups,
        "reject_then_accept_events": st.reject_then_accept,
        "history_runs": st.history_runs,
        "reseeded_instance_runs": st.reseeded_runs,
        "reseeded_rule": "instances reseeded once or twice through the public change_rng_seed() (seed from ThreadRng, read back through the hook): every sequence of length l..5 (6) over 3 letters on ONE instance, Fnv and no-op hasher: permutation-invariant selection, the l smallest race values win (tables re-read under the reported seed), one injective tuple -> value map per instance, an immediate second call returns the same signature",
    });
    ctx.finish(
        "model_checking",
        coverage,
        vec![
            "hook H4 snapshots the store right before the signature is computed; the instance seed is pinned through the hook so that runs are comparable (seed randomness is C12's subject)".into(),
            "race values of an (element, occurrence) pair do not depend on l (tables are read on instances with l = occurrences)".into(),
            "longer sequences / larger alphabets behave like the explored ones".into(),
        ],
    )
}

pub fn replay(_ctx: &Ctx, case: &Value) -> Result<(bool, String), String> {
    let m = case["m"].as_u64().ok_or("m")? as usize;
    let l = case["l"].as_u64().ok_or("l")? as usize;
    let getseq = |v: &Value| -> Vec<u32> { v.as_array().map(|a| a.iter().map(|x| x.as_u64().unwrap_or(0) as u32).collect()).unwrap_or_default() };
    match case["kind"].as_str() {
        Some("pair") => {
            let (s1, s2) = (getseq(&case["seq1"]), getseq(&case["seq2"]));
            let nohash = case["hasher"].as_str().map(|h| h.starts_with("NoHash")).unwrap_or(false);
            let elements: BTreeSet<u32> = s1.iter().cloned().collect();
            let els: Vec<u32> = elements.into_iter().collect();
            let nohash64 = case["hasher"].as_str().map(|h| h.starts_with("NoHash64")).unwrap_or(false);
            if case["hasher"].as_str().map(|h| h.starts_with("FnvTagged")).unwrap_or(false) {
                let (r1, r2) = (run_fresh_h::<FnvTagged>(m, l, &s1)?, run_fresh_h::<FnvTagged>(m, l, &s2)?);
                let viol = r1.selected != r2.selected || (l == 1 && r1.sig != r2.sig);
                return Ok((viol, format!("selected(seq1)={:?} selected(seq2)={:?}", r1.selected, r2.selected)));
            }
            let (r1, r2, tables) = if nohash64 {
                (run_fresh_h::<NoHash64>(m, l, &s1)?, run_fresh_h::<NoHash64>(m, l, &s2)?, race_tables_h::<NoHash64>(m, &els, s1.len())?)
            } else if nohash {
                type N = probminhash::nohasher::NoHashHasher;
                (run_fresh_h::<N>(m, l, &s1)?, run_fresh_h::<N>(m, l, &s2)?, race_tables_h::<N>(m, &els, s1.len())?)
            } else {
                (run_fresh(m, l, &s1)?, run_fresh(m, l, &s2)?, race_tables(m, &els, s1.len())?)
            };
            let occ = occurrences(&s1);
            let pairs: BTreeSet<Pair> = s1.iter().zip(occ.iter()).map(|(e, o)| (*e, *o)).collect();
            let mut not_smallest = false;
            for k in 0..m {
                let mut byval: Vec<(f64, Pair)> = pairs.iter().map(|p| (tables[p][k], *p)).collect();
                byval.sort_by(|a, b| a.0.partial_cmp(&b.0).unwrap());
                let want: BTreeSet<Pair> = byval.iter().take(l).map(|x| x.1).collect();
                if want != r1.selected[k] {
                    not_smallest = true;
                }
            }
            let viol = r1.selected != r2.selected || (l == 1 && r1.sig != r2.sig) || not_smallest;
            Ok((viol, format!("selected(seq1)={:?} selected(seq2)={:?} l-smallest-violated={}", r1.selected, r2.selected, not_smallest)))
        }
        Some("history") => {
            let t = getseq(&case["seq"]);
            let hist: Vec<Vec<u32>> = case["history"].as_array().ok_or("history")?.iter().map(getseq).collect();
            let base = run_fresh(m, l, &t)?;
            let mut h = fresh(m, l);
            for x in &hist {
                let _ = h.hash_set(x);
            }
            let r = run_on(&mut h, m, l, &t)?;
            Ok((r.sig != base.sig, format!("first-call sig {:x?} after-history sig {:x?}", base.sig, r.sig)))
        }
        Some("reseeded") => {
            // the seed is drawn by the crate from ThreadRng: the replay repeats the whole pass of that configuration
            let (alpha, len, reseeds) = (case["alpha"].as_u64().ok_or("alpha")? as u32, case["len"].as_u64().ok_or("len")? as usize, case["reseeds"].as_u64().ok_or("reseeds")? as usize);
            let mut st = Stats::default();
            let f = if case["hasher"].as_str().map(|h| h.starts_with("NoHash")).unwrap_or(false) {
                reseeded_pass::<probminhash::nohasher::NoHashHasher>(alpha, len, m, l, reseeds, &mut st)
            } else {
                reseeded_pass::<FnvHasher>(alpha, len, m, l, reseeds, &mut st)
            };
            Ok((!f.is_empty(), f.first().map(|x| x.what.clone()).unwrap_or_else(|| "no finding on replay".into())))
        }
        _ => Err("kind".into()),
    }
}
