//! C16 — truncated-exponential sampler has the right law on [0,1).
//! The real `ExpRestricted01::sample` under a scripted generator is a three-state Markov chain
//! (first try / rejection loop / output); all scripts over a grid are enumerated and the chain is solved exactly.

use crate::common::{guarded_mut, Ctx};
use crate::script::{word_for_k, Script};
use probminhash::exp01::ExpRestricted01;
use rand::distr::Distribution;
use rayon::prelude::*;
use serde_json::{json, Value};

const NBINS: usize = 64;

fn lambdas(thorough: bool) -> Vec<(String, f64)> {
    let mut v: Vec<(String, f64)> = vec![
        ("1e-9".into(), 1e-9),
        ("1e-6".into(), 1e-6),
        ("1e-3".into(), 1e-3),
    ];
    // the rates ProbMinHash3* uses for signature length m
    let mut ms: Vec<u32> = (2..=(if thorough { 256 } else { 33 })).collect();
    ms.extend_from_slice(&[64, 100, 256, 1000, 4096, 10_000, 1_000_000]);
    ms.sort();
    ms.dedup();
    for m in ms {
        v.push((format!("ln({}/{})", m, m - 1), ((m as f64) / ((m - 1) as f64)).ln()));
    }
    for l in [0.1, 0.25, 0.5, 0.75, 1.0, 1.5, 2.0, 3.0, 5.0, 7.0, 10.0, 15.0, 20.0, 30.0, 50.0] {
        v.push((format!("{}", l), l));
    }
    v
}

fn target_cdf(lambda: f64, t: f64) -> f64 {
    (-lambda * t).exp_m1() / (-lambda).exp_m1()
}

fn bin_of(x: f64) -> usize {
    ((x * NBINS as f64) as usize).min(NBINS - 1)
}

struct LambdaResult {
    name: String,
    lambda: f64,
    max_err: f64,
    worst_t: f64,
    tol: f64,
    p_loop: f64,
    p_accept: f64,
    executions: u64,
    out_of_range: Option<String>,
    engine: Option<String>,
    distinct_outputs_stage1: u64,
}

fn run_lambda(name: &str, lambda: f64, n1_log2: u32, n: usize) -> LambdaResult {
    let sampler = ExpRestricted01::new(lambda);
    let mut res = LambdaResult {
        name: name.to_string(),
        lambda,
        max_err: 0.,
        worst_t: 0.,
        tol: 0.,
        p_loop: 0.,
        p_accept: 0.,
        executions: 0,
        out_of_range: None,
        engine: None,
        distinct_outputs_stage1: 0,
    };
    // ---- stage 1: first try, u1 on a midpoint grid of 2^n1_log2 points
    let n1: u64 = 1u64 << n1_log2;
    let shift = 52 - n1_log2;
    let chunk: u64 = 1 << 12;
    let stage1: Vec<(Vec<u64>, u64, Option<String>, u64)> = (0..(n1 / chunk))
        .into_par_iter()
        .map(|ci| {
            let mut hist = vec![0u64; NBINS];
            let mut loops = 0u64;
            let mut bad = None;
            let mut distinct = 0u64;
            let mut last = f64::NAN;
            for i in (ci * chunk)..((ci + 1) * chunk) {
                let k = (i << shift) | (1u64 << (shift - 1));
                let words = [word_for_k(k)];
                let mut s = Script::new(&words);
                let x = sampler.sample(&mut s);
                if !(0. ..1.).contains(&x) {
                    bad = Some(format!("first-try generator value {}*2^-52 -> sample {}", k, x));
                }
                if s.overrun > 0 {
                    loops += 1;
                } else {
                    hist[bin_of(x)] += 1;
                    if x != last {
                        distinct += 1;
                        last = x;
                    }
                }
            }
            (hist, loops, bad, distinct)
        })
        .collect();
    let mut hist1 = vec![0u64; NBINS];
    let mut loops1 = 0u64;
    for (h, l, b, d) in stage1 {
        for i in 0..NBINS {
            hist1[i] += h[i];
        }
        loops1 += l;
        res.distinct_outputs_stage1 += d;
        if b.is_some() && res.out_of_range.is_none() {
            res.out_of_range = b;
        }
    }
    res.executions += n1;
    let p_loop = loops1 as f64 / n1 as f64;
    // ---- stage 2: rejection loop body, (u2,u3) on an n x n midpoint grid, reached through the largest first word
    let wmax = word_for_k((1u64 << 52) - 1);
    let nlog = (n as f64).log2() as u32;
    assert_eq!(1usize << nlog, n);
    let sh2 = 52 - nlog;
    let rows: Vec<(Vec<u64>, u64, u64, Option<String>, Option<String>)> = (0..n as u64)
        .into_par_iter()
        .map(|i2| {
            let mut hist = vec![0u64; NBINS];
            let mut acc = 0u64;
            let mut execs = 0u64;
            let mut bad = None;
            let mut engine = None;
            let k2 = (i2 << sh2) | (1u64 << (sh2 - 1));
            for i3 in 0..n as u64 {
                let k3 = (i3 << sh2) | (1u64 << (sh2 - 1));
                let words = [wmax, word_for_k(k2), word_for_k(k3)];
                let mut s = Script::new(&words);
                let x = sampler.sample(&mut s);
                execs += 1;
                if !(0. ..1.).contains(&x) {
                    bad = Some(format!("loop generator values ({},{})*2^-52 -> sample {}", k2, k3, x));
                }
                if s.consumed() < 2 {
                    engine = Some(format!("lambda {}: largest first word did not enter the rejection loop", lambda));
                    break;
                }
                if s.overrun > 0 {
                    continue; // rejected: back to the loop state
                }
                if s.consumed() == 2 {
                    // accepted on u2 alone: the whole row has this outcome
                    hist[bin_of(x)] += n as u64;
                    acc += n as u64;
                    break;
                }
                hist[bin_of(x)] += 1;
                acc += 1;
            }
            (hist, acc, execs, bad, engine)
        })
        .collect();
    let mut hist2 = vec![0u64; NBINS];
    let mut acc2 = 0u64;
    for (h, a, e, b, en) in rows {
        for i in 0..NBINS {
            hist2[i] += h[i];
        }
        acc2 += a;
        res.executions += e;
        if b.is_some() && res.out_of_range.is_none() {
            res.out_of_range = b;
        }
        if en.is_some() && res.engine.is_none() {
            res.engine = en;
        }
    }
    let total2 = (n * n) as f64;
    let p_acc = acc2 as f64 / total2;
    res.p_loop = p_loop;
    res.p_accept = p_acc;
    res.tol = (1.0 / n as f64) * (0.2 / p_acc.max(1e-9)).max(1.0) + 1e-5;
    if p_loop > 0. && acc2 == 0 {
        res.out_of_range = Some(format!("lambda {}: the rejection loop never accepts on the {}x{} grid (sampler would not terminate)", lambda, n, n));
        return res;
    }
    // ---- solve the chain: P(out <= t) = P1(<= t) + P(loop) * P2(<= t) / P2(accept)
    let mut c1 = 0u64;
    let mut c2 = 0u64;
    for j in 0..NBINS {
        c1 += hist1[j];
        c2 += hist2[j];
        let t = (j + 1) as f64 / NBINS as f64;
        let f = c1 as f64 / n1 as f64 + if acc2 > 0 { p_loop * (c2 as f64 / total2) / p_acc } else { 0. };
        let err = (f - target_cdf(lambda, t)).abs();
        if err > res.max_err {
            res.max_err = err;
            res.worst_t = t;
        }
    }
    res
}

/// generator values around the boundary U = 1/c1 between "first try accepted" and "enter the loop": the sample must stay
/// in [0,1) for every one of them (a product c1*U that rounds to exactly 1.0 must not be returned)
fn first_try_boundary(lambda: f64) -> (u64, Option<String>) {
    let sampler = ExpRestricted01::new(lambda);
    let c1 = lambda.exp_m1() / lambda;
    let k0 = ((1u64 << 52) as f64 / c1) as u64;
    let mut n = 0;
    for d in -40i64..=40 {
        let k = k0 as i64 + d;
        if k < 0 || k >= (1i64 << 52) {
            continue;
        }
        // loop words: a mid value so that the loop accepts quickly
        let words = [word_for_k(k as u64), word_for_k(1u64 << 50), word_for_k(1u64 << 51), word_for_k(1u64 << 49), word_for_k(1u64 << 51)];
        let mut s = Script::new(&words);
        let x = sampler.sample(&mut s);
        n += 1;
        if !(0. ..1.).contains(&x) {
            return (n, Some(format!("lambda {}: first generator value {}*2^-52 (next to 1/c1) gives sample {} outside [0,1)", lambda, k, x)));
        }
    }
    (n, None)
}

/// extreme generator words in every position: in range and terminating
fn extremes(lambda: f64, len: usize) -> (u64, Option<String>) {
    let sampler = ExpRestricted01::new(lambda);
    let top = (1u64 << 52) - 1;
    let alphabet = [0u64, 1, top, top - 1, 1u64 << 51, (1u64 << 51) - 1, 1u64 << 50, 3u64 << 50];
    let mut idx = vec![0usize; len];
    let mut n = 0u64;
    loop {
        let words: Vec<u64> = idx.iter().map(|i| word_for_k(alphabet[*i])).collect();
        let r = guarded_mut(|| {
            let mut s = Script::new(&words);
            let x = sampler.sample(&mut s);
            (x, s.overrun)
        });
        n += 1;
        match r {
            Err(p) => return (n, Some(format!("lambda {} words {:?}: panic {}", lambda, idx, p))),
            Ok((x, overrun)) => {
                if !(0. ..1.).contains(&x) {
                    return (n, Some(format!("lambda {} generator values {:?}*2^-52: sample {} outside [0,1)", lambda, idx.iter().map(|i| alphabet[*i]).collect::<Vec<_>>(), x)));
                }
                if overrun > 4 {
                    return (n, Some(format!("lambda {}: sampler kept drawing after the script was exhausted", lambda)));
                }
            }
        }
        let mut p = len;
        loop {
            if p == 0 {
                return (n, None);
            }
            p -= 1;
            idx[p] += 1;
            if idx[p] < alphabet.len() {
                break;
            }
            idx[p] = 0;
        }
    }
}

fn check_lambda(ctx: &Ctx, name: &str, lambda: f64, n1_log2: u32, n: usize, details: &mut Vec<Value>, execs: &mut u64, distinct: &mut u64) -> Result<(), i32> {
    let r = run_lambda(name, lambda, n1_log2, n);
    if let Some(e) = &r.engine {
        println!("ENGINE-ERROR C16 {}", e);
        return Err(2);
    }
    *execs += r.executions;
    *distinct += r.distinct_outputs_stage1;
    let (nx, xbad) = extremes(lambda, 5);
    *execs += nx;
    let (nb, bbad) = first_try_boundary(lambda);
    *execs += nb;
    let xbad = xbad.or(bbad);
    println!(
        "C16 lambda={} ({:.6e}) P(loop)={:.6} P(accept|loop)={:.6} max|CDF-target|={:.3e} at t={:.4} tol={:.3e} execs={}",
        name, lambda, r.p_loop, r.p_accept, r.max_err, r.worst_t, r.tol, r.executions
    );
    if name == "ln(2/1)" || name == "10" {
        ctx.sample(json!({"lambda": name, "first_try_grid_points": 1u64 << n1_log2, "loop_grid": format!("{0}x{0}", n), "P_loop": r.p_loop, "P_accept_per_round": r.p_accept, "max_cdf_error": r.max_err, "tolerance": r.tol}));
    }
    details.push(json!({"lambda": name, "value": lambda, "p_loop": r.p_loop, "p_accept_per_round": r.p_accept, "max_cdf_error": r.max_err,
        "at_t": r.worst_t, "tolerance": r.tol, "executions": r.executions, "extreme_word_scripts": nx}));
    let case = json!({"kind": "lambda", "name": name, "lambda": lambda, "n1_log2": n1_log2, "n": n});
    if let Some(w) = r.out_of_range {
        ctx.violation(&format!("range:lambda={}", name), &w, case.clone());
    }
    if let Some(w) = xbad {
        ctx.violation(&format!("extreme:lambda={}", name), &w, case.clone());
    }
    if r.max_err > r.tol {
        ctx.violation(
            &format!("law:lambda={}", name),
            &format!(
                "lambda={}: distribution function of the real sampler differs from (1-exp(-lambda t))/(1-exp(-lambda)) by {:.3e} at t={:.4} (tolerance {:.3e}; P(loop)={:.5}, P(accept)={:.5})",
                name, r.max_err, r.worst_t, r.tol, r.p_loop, r.p_accept
            ),
            case,
        );
    }
    Ok(())
}

pub fn run(ctx: &Ctx) -> i32 {
    if let Err(e) = crate::script::selfcheck_uniform_mapping() {
        println!("ENGINE-ERROR C16 script self-check: {}", e);
        return 2;
    }
    let n = ctx.pick(4096usize, 16384);
    let n1_log2 = ctx.pick(20u32, 22);
    let mut details = Vec::new();
    let mut execs = 0u64;
    let mut distinct = 0u64;
    for (name, lambda) in lambdas(!ctx.quick()) {
        if let Err(c) = check_lambda(ctx, &name, lambda, n1_log2, n, &mut details, &mut execs, &mut distinct) {
            return c;
        }
    }
    let coverage = json!({
        "states": 3 + NBINS,
        "transitions": execs,
        "traces_validated_against_impl": execs,
        "samples": [
            {"first_try_script": {"lambda": "ln(2/1)", "u1": "(i+1/2)*2^-20 for every i < 2^20"}},
            {"loop_script": {"words": ["1-2^-52 (forces the loop)", "u2=(i2+1/2)/N", "u3=(i3+1/2)/N"], "outcome": "accept(bin) | back to loop"}},
            {"extreme_script": {"values_times_2^52": [0, 4503599627370495u64, 1, 2251799813685248u64, 0]}}
        ],
        "exhaustive": true,
        "evaluations": execs,
        "distinct_nontrivial": distinct,
        "rule": "every script over the grid is run on the real sampler: u1 on a 2^20 (thorough 2^22) midpoint grid, (u2,u3) on an NxN midpoint grid behind the loop-forcing first word, plus all 8^5 scripts over extreme words and the 81 generator values around the accept/loop boundary 1/c1; the 3-state chain first-try/loop/output is solved exactly, P(out<=t)=P1(<=t)+P(loop)*P2(<=t)/P2(accept) on 64 bin edges; distinct = distinct first-try outputs",
        "grid_n": n,
        "first_try_grid_log2": n1_log2,
        "cdf_tolerance": "max(1, 0.2/P(accept))/N + 1e-5 (midpoint rule on regions bounded by monotone curves, amplified by the loop normalisation); see max_cdf_error per lambda for what was observed",
        "per_lambda": details,
    });
    ctx.finish(
        "model_checking",
        coverage,
        vec![
            "rand 0.9 Uniform<f64> word->value map (self-checked)".into(),
            "discretisation: the law is decided up to the stated tolerance max(1,0.2/P(accept))/N+1e-5, not exactly".into(),
            "lambda values outside the listed ones (1e-9..50, all ProbMinHash rates ln(m/(m-1)) for m<=33 / 256 and selected larger m) are not explored".into(),
        ],
    )
}

pub fn replay(_ctx: &Ctx, case: &Value) -> Result<(bool, String), String> {
    let name = case["name"].as_str().ok_or("name")?;
    let lambda = case["lambda"].as_f64().ok_or("lambda")?;
    let n = case["n"].as_u64().ok_or("n")? as usize;
    let n1 = case["n1_log2"].as_u64().ok_or("n1")? as u32;
    let r = run_lambda(name, lambda, n1, n);
    if let Some(e) = r.engine {
        return Err(e);
    }
    let (_, xbad) = extremes(lambda, 5);
    let viol = r.out_of_range.is_some() || xbad.is_some() || r.max_err > r.tol;
    Ok((viol, format!("lambda={} max_cdf_error={:.6e} tol={:.3e} out_of_range={:?} extreme={:?}", name, r.max_err, r.tol, r.out_of_range, xbad)))
}
