//! C16 — truncated-exponential sampler has the right law on [0,1).
//! The real `ExpRestricted01::sample` under a scripted generator is a three-state Markov chain
//! (first try / rejection loop / output); all scripts over a grid are enumerated and the chain is solved exactly.

use crate::common::{guarded_mut, Ctx};
use crate::script::{word_for_k, Script};
use probminhash::exp01::ExpRestricted01;
use rand::distr::Distribution;
use rayon::prelude::*;
use serde_json::{json, Value};

const NBINS: usize = 64;

fn lambdas(thorough: bool) -> Vec<(String, f64)> {
    let mut v: Vec<(String, f64)> = vec![
        ("1e-300".into(), 1e-300),
        ("1e-17".into(), 1e-17),
        ("1e-12".into(), 1e-12),
        ("1e-9".into(), 1e-9),
        ("1e-6".into(), 1e-6),
        ("1e-3".into(), 1e-3),
    ];
    // the rates ProbMinHash3* uses for signature length m
    let mut ms: Vec<u32> = (2..=(if thorough { 256 } else { 33 })).collect();
    ms.extend_from_slice(&[64, 100, 256, 1000, 4096, 10_000, 1_000_000]);
    ms.sort();
    ms.dedup();
    for m in ms {
        v.push((format!("ln({}/{})", m, m - 1), ((m as f64) / ((m - 1) as f64)).ln()));
    }
    for l in [0.05, 0.1, 0.25, 0.5, 0.75, 0.9, 1.0, 1.25, 1.5, 2.0, 2.5, 3.0, 4.0, 5.0, 6.0, 7.0, 8.0, 8.1, 8.5, 9.0, 10.0, 12.0, 15.0, 18.0, 20.0, 25.0, 30.0, 40.0, 50.0, 75.0, 100.0, 300.0, 700.0, 709.0, 710.0, 720.0, 1000.0, 1e4, 1e6, 1e9] {
        v.push((format!("{}", l), l));
    }
    v
}

fn target_cdf(lambda: f64, t: f64) -> f64 {
    (-lambda * t).exp_m1() / (-lambda).exp_m1()
}

/// bins are the 64 quantile intervals of the target law (so that a rate of 1000, whose law lives on x ~ 1e-3, is resolved as
/// well as a rate of 1e-9): x falls in bin floor(64 F(x))
fn bin_of(lambda: f64, x: f64) -> usize {
    ((target_cdf(lambda, x) * NBINS as f64) as usize).min(NBINS - 1)
}

/// x-coordinates of the 65 bin edges (quantiles of the target law)
fn bin_edges(lambda: f64) -> Vec<f64> {
    (0..=NBINS)
        .map(|j| {
            let q = j as f64 / NBINS as f64;
            if j == NBINS {
                1.0
            } else {
                // F(t) = q  <=>  t = -ln(1 + q*expm1(-lambda)) / lambda
                (-(q * (-lambda).exp_m1()).ln_1p() / lambda).clamp(0., 1.)
            }
        })
        .collect()
}

/// a row of the loop grid stands for outputs spread uniformly over [v - h/2, v + h/2): its mass is shared among the bins
/// that interval overlaps (binning the whole row by its midpoint would cost one row's mass per bin edge)
fn allocate(hist: &mut [f64], edges: &[f64], lambda: f64, v: f64, h: f64, mass: f64) {
    let (lo, hi) = ((v - h / 2.).max(0.), (v + h / 2.).min(1.));
    let (jlo, jhi) = (bin_of(lambda, lo), bin_of(lambda, hi));
    if jlo >= jhi || hi <= lo {
        hist[bin_of(lambda, v)] += mass;
        return;
    }
    let mut given = 0.;
    for j in jlo..=jhi {
        let o = (hi.min(edges[j + 1]) - lo.max(edges[j])).max(0.);
        let part = mass * o / (hi - lo);
        hist[j] += part;
        given += part;
    }
    // rounding of the edges: whatever is left goes to the midpoint's bin
    hist[bin_of(lambda, v)] += mass - given;
}

struct LambdaResult {
    name: String,
    lambda: f64,
    max_err: f64,
    worst_t: f64,
    tol: f64,
    p_loop: f64,
    p_accept: f64,
    executions: u64,
    out_of_range: Option<String>,
    engine: Option<String>,
    distinct_outputs_stage1: u64,
    strata: u32,
}

fn run_lambda(name: &str, lambda: f64, n1_log2: u32, n: usize) -> LambdaResult {
    let sampler = ExpRestricted01::new(lambda);
    let mut res = LambdaResult {
        name: name.to_string(),
        lambda,
        max_err: 0.,
        worst_t: 0.,
        tol: 0.,
        p_loop: 0.,
        p_accept: 0.,
        executions: 0,
        out_of_range: None,
        engine: None,
        distinct_outputs_stage1: 0,
        strata: 1,
    };
    // ---- stage 1: first try, u1 on a midpoint grid of 2^n1_log2 points
    let n1: u64 = 1u64 << n1_log2;
    let shift = 52 - n1_log2;
    let chunk: u64 = 1 << 12;
    let stage1: Vec<(Vec<u64>, u64, Option<String>, u64)> = (0..(n1 / chunk))
        .into_par_iter()
        .map(|ci| {
            let mut hist = vec![0u64; NBINS];
            let mut loops = 0u64;
            let mut bad = None;
            let mut distinct = 0u64;
            let mut last = f64::NAN;
            for i in (ci * chunk)..((ci + 1) * chunk) {
                let k = (i << shift) | (1u64 << (shift - 1));
                let words = [word_for_k(k)];
                let mut s = Script::new(&words);
                let x = sampler.sample(&mut s);
                if !(0. ..1.).contains(&x) {
                    bad = Some(format!("first-try generator value {}*2^-52 -> sample {}", k, x));
                }
                if s.overrun > 0 {
                    loops += 1;
                } else {
                    hist[bin_of(lambda, x)] += 1;
                    if x != last {
                        distinct += 1;
                        last = x;
                    }
                }
            }
            (hist, loops, bad, distinct)
        })
        .collect();
    let mut hist1 = vec![0u64; NBINS];
    let mut loops1 = 0u64;
    for (h, l, b, d) in stage1 {
        for i in 0..NBINS {
            hist1[i] += h[i];
        }
        loops1 += l;
        res.distinct_outputs_stage1 += d;
        if b.is_some() && res.out_of_range.is_none() {
            res.out_of_range = b;
        }
    }
    res.executions += n1;
    let p_loop = loops1 as f64 / n1 as f64;
    // ---- stage 2: rejection loop body behind the largest first word.  u2 runs over geometric strata with nx midpoints each
    // (the law of a large rate lives on x ~ 1/lambda: a uniform grid would put a handful of points there), u3 over n
    // midpoints of [0,1); a stratum weighs its width.
    let wmax = word_for_k((1u64 << 52) - 1);
    let nlog = (n as f64).log2() as u32;
    assert_eq!(1usize << nlog, n);
    // strata as (lo, width) in units of 2^-52: one stratum [0,1) for lambda <= 1, else 2L strata, geometric towards 0 and -
    // because the loop reflects points (x,y) with y > 1-x to (1-x,1-y) - towards 1
    let levels: u32 = if lambda <= 1. { 0 } else { ((lambda.log2().ceil() as u32) + 3).min(38) };
    let mut strata: Vec<(u64, u64)> = Vec::new();
    if levels == 0 {
        strata.push((0, 1u64 << 52));
    } else {
        let one = 1u64 << 52;
        let w0 = one >> levels; // [0, 2^-L)
        strata.push((0, w0));
        strata.push((one - w0, w0));
        let mut w = w0;
        while w < one / 2 {
            strata.push((w, w)); // [w, 2w)
            strata.push((one - 2 * w, w)); // [1-2w, 1-w)
            w *= 2;
        }
        debug_assert_eq!(strata.iter().map(|x| x.1).sum::<u64>(), one);
    }
    let nstrata = strata.len() as u32;
    let nx: u64 = if nstrata == 1 { 4 * n as u64 } else { n as u64 };
    let _ = nlog;
    // (stratum, i2) pairs
    let cells: Vec<(u32, u64)> = (0..nstrata).flat_map(|st| (0..nx).map(move |i| (st, i))).collect();
    let strata_ref = &strata;
    // one row = one value of u2.  u3 is probed at NY midpoints plus the two ends of [0,1); wherever two neighbouring probes
    // have different outcomes (rejected / accepted with some output value) the switch point is located by bisection on the
    // 52-bit generator value, so the measure of every outcome inside a row is exact as long as no outcome interval is
    // narrower than 1/NY.  The only discretisation left is the midpoint rule across rows.
    const NY: u64 = 256;
    #[derive(Clone, Copy, PartialEq)]
    enum Out {
        Reject,
        Accept(u64),
        Whole(u64),
        NoLoop,
    }
    let edges = bin_edges(lambda);
    let edges_ref = &edges;
    let rows: Vec<(u32, Vec<f64>, f64, u64, Option<String>, Option<String>)> = cells
        .into_par_iter()
        .map(|(st, i2)| {
            let mut hist = vec![0f64; NBINS];
            let mut acc = 0f64;
            let mut execs = 0u64;
            let mut bad = None;
            let mut engine = None;
            let (lo, width) = strata_ref[st as usize];
            let step = width / nx;
            let k2 = lo + i2 * step + step / 2;
            let h = step as f64 / (1u64 << 52) as f64;
            let mut eval = |k3: u64| -> Out {
                let words = [wmax, word_for_k(k2), word_for_k(k3)];
                let mut s = Script::new(&words);
                let x = sampler.sample(&mut s);
                execs += 1;
                if !(0. ..1.).contains(&x) {
                    bad = Some(format!("loop generator values ({},{})*2^-52 -> sample {}", k2, k3, x));
                }
                if s.consumed() < 2 {
                    Out::NoLoop
                } else if s.overrun > 0 {
                    Out::Reject
                } else if s.consumed() == 2 {
                    Out::Whole(x.to_bits())
                } else {
                    Out::Accept(x.to_bits())
                }
            };
            let top = (1u64 << 52) - 1;
            let mut pts: Vec<u64> = vec![0];
            pts.extend((0..NY).map(|i| (i << (52 - 8)) | (1u64 << (52 - 9))));
            pts.push(top);
            let first = eval(0);
            match first {
                Out::NoLoop => {
                    // the largest first word was answered at once: there is no loop to explore behind it.  Whether that is
                    // legitimate is decided by the range test and by stage 1 (which then must not have looped either)
                    if loops1 > 0 {
                        engine = Some(format!("lambda {}: grid words enter a loop but the largest first word does not; the 3-state chain does not describe this sampler", lambda));
                    }
                    return (st, hist, acc, execs, bad, engine);
                }
                Out::Whole(b) => {
                    // accepted on u2 alone: the whole row has this outcome
                    allocate(&mut hist, edges_ref, lambda, f64::from_bits(b), h, 1.0);
                    return (st, hist, 1.0, execs, bad, engine);
                }
                _ => {}
            }
            // segments [start, end) of constant outcome
            let mut seg_start = 0u64;
            let mut cur = first;
            let mut prev_k = 0u64;
            let mut add = |o: Out, from: u64, to: u64, hist: &mut Vec<f64>, acc: &mut f64| {
                if let Out::Accept(b) = o {
                    let w = (to - from) as f64 / (1u64 << 52) as f64;
                    allocate(hist, edges_ref, lambda, f64::from_bits(b), h, w);
                    *acc += w;
                }
            };
            for &k in &pts[1..] {
                let o = eval(k);
                if o != cur {
                    // bisect: largest a in [prev_k, k) with outcome cur, then the switch is at a + 1
                    let (mut a, mut b) = (prev_k, k);
                    while b - a > 1 {
                        let mid = a + (b - a) / 2;
                        if eval(mid) == cur {
                            a = mid;
                        } else {
                            b = mid;
                        }
                    }
                    add(cur, seg_start, b, &mut hist, &mut acc);
                    seg_start = b;
                    cur = eval(b);
                    if cur != o {
                        // more than one switch between two probes: fall back to the probe's outcome from here on
                        cur = o;
                    }
                }
                prev_k = k;
            }
            add(cur, seg_start, 1u64 << 52, &mut hist, &mut acc);
            (st, hist, acc, execs, bad, engine)
        })
        .collect();
    // weighted sums: a row of stratum st stands for the measure width(st) / nx
    let mut hist2 = vec![0f64; NBINS];
    let mut p_acc = 0f64;
    for (st, h, a, e, b, en) in rows {
        let w = strata[st as usize].1 as f64 / (1u64 << 52) as f64 / nx as f64;
        for i in 0..NBINS {
            hist2[i] += w * h[i];
        }
        p_acc += w * a;
        res.executions += e;
        if b.is_some() && res.out_of_range.is_none() {
            res.out_of_range = b;
        }
        if en.is_some() && res.engine.is_none() {
            res.engine = en;
        }
    }
    res.p_loop = p_loop;
    res.p_accept = p_acc;
    res.strata = nstrata;
    // discretisation: the boundary of the accepted region and the bin edges cut O(nx + n) of the nx*n cells of a stratum;
    // measured against the accepted mass that is O(1/(n * P(accept | stratum))) - the strata keep P(accept | stratum) of the
    // strata that matter away from 0.  The constant is calibrated on the observed errors (see per_lambda in the evidence).
    res.tol = if n >= 16384 { 2e-6 } else { 5e-6 };
    if p_loop > 0. && p_acc == 0. {
        res.out_of_range = Some(format!("lambda {}: the rejection loop never accepts on the grid (sampler would not terminate)", lambda));
        return res;
    }
    // ---- solve the chain: P(out <= t) = P1(<= t) + P(loop) * P2(<= t) / P2(accept), t over the 64 quantiles of the target
    let mut c1 = 0u64;
    let mut c2 = 0f64;
    for j in 0..NBINS {
        c1 += hist1[j];
        c2 += hist2[j];
        let f = c1 as f64 / n1 as f64 + if p_acc > 0. { p_loop * c2 / p_acc } else { 0. };
        let q = (j + 1) as f64 / NBINS as f64;
        let err = (f - q).abs();
        if err > res.max_err {
            res.max_err = err;
            res.worst_t = q;
        }
    }
    res
}

/// generator values around the boundary U = 1/c1 between "first try accepted" and "enter the loop": the sample must stay
/// in [0,1) for every one of them (a product c1*U that rounds to exactly 1.0 must not be returned)
fn first_try_boundary(lambda: f64) -> (u64, Option<String>) {
    let sampler = ExpRestricted01::new(lambda);
    let c1 = lambda.exp_m1() / lambda;
    let k0 = ((1u64 << 52) as f64 / c1) as u64;
    let mut n = 0;
    for d in -40i64..=40 {
        let k = k0 as i64 + d;
        if k < 0 || k >= (1i64 << 52) {
            continue;
        }
        // loop words: a mid value so that the loop accepts quickly
        let words = [word_for_k(k as u64), word_for_k(1u64 << 50), word_for_k(1u64 << 51), word_for_k(1u64 << 49), word_for_k(1u64 << 51)];
        let mut s = Script::new(&words);
        let x = sampler.sample(&mut s);
        n += 1;
        if !(0. ..1.).contains(&x) {
            return (n, Some(format!("lambda {}: first generator value {}*2^-52 (next to 1/c1) gives sample {} outside [0,1)", lambda, k, x)));
        }
    }
    (n, None)
}

/// extreme generator words in every position: in range and terminating
fn extremes(lambda: f64, len: usize) -> (u64, Option<String>) {
    let sampler = ExpRestricted01::new(lambda);
    let top = (1u64 << 52) - 1;
    let alphabet = [0u64, 1, top, top - 1, 1u64 << 51, (1u64 << 51) - 1, 1u64 << 50, 3u64 << 50];
    let mut idx = vec![0usize; len];
    let mut n = 0u64;
    loop {
        let words: Vec<u64> = idx.iter().map(|i| word_for_k(alphabet[*i])).collect();
        let r = guarded_mut(|| {
            let mut s = Script::new(&words);
            let x = sampler.sample(&mut s);
            (x, s.overrun)
        });
        n += 1;
        match r {
            Err(p) => return (n, Some(format!("lambda {} words {:?}: panic {}", lambda, idx, p))),
            Ok((x, overrun)) => {
                if !(0. ..1.).contains(&x) {
                    return (n, Some(format!("lambda {} generator values {:?}*2^-52: sample {} outside [0,1)", lambda, idx.iter().map(|i| alphabet[*i]).collect::<Vec<_>>(), x)));
                }
                if overrun > 4 {
                    return (n, Some(format!("lambda {}: sampler kept drawing after the script was exhausted", lambda)));
                }
            }
        }
        let mut p = len;
        loop {
            if p == 0 {
                return (n, None);
            }
            p -= 1;
            idx[p] += 1;
            if idx[p] < alphabet.len() {
                break;
            }
            idx[p] = 0;
        }
    }
}

fn check_lambda(ctx: &Ctx, name: &str, lambda: f64, n1_log2: u32, n: usize, details: &mut Vec<Value>, execs: &mut u64, distinct: &mut u64) -> Result<(), i32> {
    let r = run_lambda(name, lambda, n1_log2, n);
    let (nx, xbad) = extremes(lambda, 5);
    *execs += nx;
    let (nb, bbad) = first_try_boundary(lambda);
    *execs += nb;
    let xbad = xbad.or(bbad);
    if let Some(e) = &r.engine {
        // a sampler the chain cannot describe: range violations found by the structure-free scripts are still verdicts
        let case = json!({"kind": "lambda", "name": name, "lambda": lambda, "n1_log2": n1_log2, "n": n});
        if let Some(w) = r.out_of_range.clone().or(xbad.clone()) {
            ctx.violation(&format!("range:lambda={}", name), &w, case);
            return Ok(());
        }
        println!("ENGINE-ERROR C16 {}", e);
        return Err(2);
    }
    *execs += r.executions;
    *distinct += r.distinct_outputs_stage1;
    println!(
        "C16 lambda={} ({:.6e}) P(loop)={:.6} P(accept|loop)={:.6} max|CDF-target|={:.3e} at quantile {:.4} tol={:.3e} execs={}",
        name, lambda, r.p_loop, r.p_accept, r.max_err, r.worst_t, r.tol, r.executions
    );
    if name == "ln(2/1)" || name == "10" {
        ctx.sample(json!({"lambda": name, "first_try_grid_points": 1u64 << n1_log2, "loop_grid": format!("{0}x{0}", n), "P_loop": r.p_loop, "P_accept_per_round": r.p_accept, "max_cdf_error": r.max_err, "tolerance": r.tol}));
    }
    details.push(json!({"lambda": name, "value": lambda, "p_loop": r.p_loop, "p_accept_per_round": r.p_accept, "max_cdf_error": r.max_err,
        "at_quantile": r.worst_t, "tolerance": r.tol, "executions": r.executions, "extreme_word_scripts": nx}));
    let case = json!({"kind": "lambda", "name": name, "lambda": lambda, "n1_log2": n1_log2, "n": n});
    if let Some(w) = r.out_of_range {
        ctx.violation(&format!("range:lambda={}", name), &w, case.clone());
    }
    if let Some(w) = xbad {
        ctx.violation(&format!("extreme:lambda={}", name), &w, case.clone());
    }
    if r.max_err > r.tol {
        ctx.violation(
            &format!("law:lambda={}", name),
            &format!(
                "lambda={}: distribution function of the real sampler differs from (1-exp(-lambda t))/(1-exp(-lambda)) by {:.3e} at its quantile {:.4} (tolerance {:.3e}; P(loop)={:.5}, P(accept)={:.5})",
                name, r.max_err, r.worst_t, r.tol, r.p_loop, r.p_accept
            ),
            case,
        );
    }
    Ok(())
}

/// The 3-state chain assumes that a rejected proposal leaves no trace.  Scripts with k consecutive rejected proposals
/// (x = 0.9, y = 0.095: every acceptance test fails for rates from 2 to 300, which is verified on the real sampler with
/// k = 1 by the number of words it consumes) followed by one accepted proposal x = 2^-10: the sampler must return that
/// value and consume exactly 2k + 2 words, for k up to 5000 (a cap on the number of proposals, a counter, a fallback
/// after n attempts show here).
fn long_rejection_runs() -> (u64, Option<(f64, String)>) {
    let top = (1u64 << 52) - 1;
    let wx = word_for_k((0.9 * crate::script::TWO52) as u64);
    let wy = word_for_k((0.19 * crate::script::TWO52) as u64);
    let acc_k = 1u64 << 42; // 2^-10
    let acc = acc_k as f64 / crate::script::TWO52;
    let mut n = 0u64;
    for &lambda in &[2.0f64, 5., 10., 25., 60., 300.] {
        let sampler = ExpRestricted01::new(lambda);
        let run = |k: usize| {
            let mut words = vec![word_for_k(top)];
            for _ in 0..k {
                words.push(wx);
                words.push(wy);
            }
            words.push(word_for_k(acc_k));
            guarded_mut(|| {
                let mut s = Script::new(&words);
                let x = sampler.sample(&mut s);
                (x, s.consumed(), s.overrun)
            })
        };
        // premise: one rejected proposal is consumed as two words and the accepted one returns 2^-10
        match run(1) {
            Ok((x, 4, 0)) if x == acc => {}
            _ => continue,
        }
        for &k in &[0usize, 2, 3, 31, 32, 33, 63, 64, 65, 100, 127, 128, 129, 255, 256, 257, 1000, 5000] {
            n += 1;
            match run(k) {
                Ok((x, c, 0)) if x == acc && c == 2 * k + 2 => {}
                Ok((x, c, o)) => return (n, Some((lambda, format!("lambda {}: after {} consecutive rejected proposals (x = 0.9, y = 0.095) and one accepted proposal x = 2^-10 the sampler returns {} after {} words ({} beyond the script); after one rejected proposal it returns 2^-10 after 4 words", lambda, k, x, c, o)))),
                Err(p) => return (n, Some((lambda, format!("lambda {}: panic after {} rejected proposals: {}", lambda, k, p)))),
            }
        }
    }
    (n, None)
}

pub fn run(ctx: &Ctx) -> i32 {
    if let Err(e) = crate::script::selfcheck_uniform_mapping() {
        println!("ENGINE-ERROR C16 script self-check: {}", e);
        return 2;
    }
    let n = ctx.pick(4096usize, 16384);
    let n1_log2 = ctx.pick(22u32, 24);
    let mut details = Vec::new();
    let mut execs = 0u64;
    let mut distinct = 0u64;
    for (name, lambda) in lambdas(!ctx.quick()) {
        if let Err(c) = check_lambda(ctx, &name, lambda, n1_log2, n, &mut details, &mut execs, &mut distinct) {
            return c;
        }
    }
    {
        let (nr, bad) = long_rejection_runs();
        execs += nr;
        if nr == 0 {
            ctx.note("long rejection runs: the premise (x = 0.9, y = 0.095 is rejected) did not hold for any rate; nothing explored".to_string());
        }
        if let Some((l, w)) = bad {
            ctx.violation("rejected-proposals-leave-a-trace", &w, json!({"kind": "rejection-run", "lambda": l}));
        }
    }
    // with a trace-level logger installed (log macros evaluate their arguments only then): structure-free scripts for a few rates
    for l in [0.1f64, std::f64::consts::LN_2, 3.0, 20.0, 800.0] {
        let (nx, xbad) = crate::common::with_trace_logging(|| extremes(l, 4));
        execs += nx;
        if let Some(w) = xbad {
            ctx.violation("logging", &format!("with a trace-level logger installed: {}", w), json!({"kind": "logging", "lambda": l}));
        }
    }
    let coverage = json!({
        "states": 3 + NBINS,
        "transitions": execs,
        "traces_validated_against_impl": execs,
        "samples": [
            {"first_try_script": {"lambda": "ln(2/1)", "u1": "(i+1/2)*2^-20 for every i < 2^20"}},
            {"loop_script": {"words": ["1-2^-52 (forces the loop)", "u2=(i2+1/2)/N", "u3=(i3+1/2)/N"], "outcome": "accept(bin) | back to loop"}},
            {"extreme_script": {"values_times_2^52": [0, 4503599627370495u64, 1, 2251799813685248u64, 0]}}
        ],
        "exhaustive": true,
        "evaluations": execs,
        "distinct_nontrivial": distinct,
        "rule": "every script over the grid is run on the real sampler: u1 on a 2^22 (thorough 2^24) midpoint grid; (u2,u3) behind the loop-forcing first word: u2 on 4N midpoints of [0,1) for lambda<=1, else on N midpoints of each of 2L geometric strata [0,2^-L),[2^-L,2^-(L-1)),..,[1/4,1/2) and their mirror images towards 1 (N = 4096 (16384), L=ceil(log2 lambda)+3; the loop reflects points, so both ends matter), each stratum weighted by its width; for every u2 the outcome as a function of u3 is probed at 258 points and every switch between neighbouring probes is located by bisection on the 52-bit generator value, so the measure of each outcome within a row is exact; a row's mass is shared among the quantile bins its x-interval overlaps; plus scripts with 0..5000 consecutive rejected proposals before an accepted one for 6 rates from 2 to 300 (returned value and number of words consumed), all 8^5 scripts over extreme words and the 81 generator values around the accept/loop boundary 1/c1; the 3-state chain first-try/loop/output is solved exactly, P(out<=t)=P1(<=t)+P(loop)*P2(<=t)/P2(accept), compared at the 64 quantiles of the target law; distinct = distinct first-try outputs",
        "grid_n": n,
        "first_try_grid_log2": n1_log2,
        "cdf_tolerance": "5e-6 (thorough 2e-6): what is left is the midpoint rule across rows and the 2^-22 first-try grid; the largest error observed on the unchanged tree is 8e-7 for every rate from 1e-300 to 1e9 (see max_cdf_error per lambda)",
        "per_lambda": details,
    });
    ctx.finish(
        "model_checking",
        coverage,
        vec![
            "rand 0.9 Uniform<f64> word->value map (self-checked)".into(),
            "discretisation: the law is decided up to the stated tolerance (5e-6 quick, 2e-6 thorough) at 64 quantiles, not exactly; an outcome interval in u3 narrower than 1/256 inside a row would be missed".into(),
            "lambda values outside the listed ones (1e-300..1e9: a ladder of 40 rates, all ProbMinHash rates ln(m/(m-1)) for m<=33 / 256 and selected larger m) are not explored".into(),
        ],
    )
}

pub fn replay(_ctx: &Ctx, case: &Value) -> Result<(bool, String), String> {
    if case["kind"].as_str() == Some("rejection-run") {
        let (_, bad) = long_rejection_runs();
        return Ok(match bad {
            Some((_, w)) => (true, w),
            None => (false, "rejected proposals leave no trace".into()),
        });
    }
    if case["kind"].as_str() == Some("logging") {
        return Err("re-derived by running the check itself".into());
    }
    let name = case["name"].as_str().ok_or("name")?;
    let lambda = case["lambda"].as_f64().ok_or("lambda")?;
    let n = case["n"].as_u64().ok_or("n")? as usize;
    let n1 = case["n1_log2"].as_u64().ok_or("n1")? as u32;
    let r = run_lambda(name, lambda, n1, n);
    let (_, xbad) = extremes(lambda, 5);
    if let Some(e) = r.engine {
        if r.out_of_range.is_some() || xbad.is_some() {
            return Ok((true, format!("lambda={} out_of_range={:?} extreme={:?}", name, r.out_of_range, xbad)));
        }
        return Err(e);
    }
    let viol = r.out_of_range.is_some() || xbad.is_some() || r.max_err > r.tol;
    Ok((viol, format!("lambda={} max_cdf_error={:.6e} tol={:.3e} out_of_range={:?} extreme={:?}", name, r.max_err, r.tol, r.out_of_range, xbad)))
}
