use crate::common::Ctx;
use serde_json::Value;

pub mod c01;
pub mod c02;
pub mod c03;
pub mod c04;
pub mod c05;
pub mod c06;
pub mod c07;
pub mod c08;
pub mod c09;
pub mod c10;
pub mod c11;
pub mod c12;
pub mod c13;
pub mod c14;
pub mod c15;
pub mod c16;
pub mod c17;
pub mod c18;
pub mod c19;
pub mod c20;

type RunFn = fn(&Ctx) -> i32;
type ReplayFn = fn(&Ctx, &Value) -> Result<(bool, String), String>;

fn table(prop: &str) -> Option<(RunFn, ReplayFn)> {
    Some(match prop {
        "C01" => (c01::run, c01::replay),
        "C02" => (c02::run, c02::replay),
        "C03" => (c03::run, c03::replay),
        "C04" => (c04::run, c04::replay),
        "C05" => (c05::run, c05::replay),
        "C06" => (c06::run, c06::replay),
        "C07" => (c07::run, c07::replay),
        "C08" => (c08::run, c08::replay),
        "C09" => (c09::run, c09::replay),
        "C10" => (c10::run, c10::replay),
        "C11" => (c11::run, c11::replay),
        "C12" => (c12::run, c12::replay),
        "C13" => (c13::run, c13::replay),
        "C14" => (c14::run, c14::replay),
        "C15" => (c15::run, c15::replay),
        "C16" => (c16::run, c16::replay),
        "C17" => (c17::run, c17::replay),
        "C18" => (c18::run, c18::replay),
        "C19" => (c19::run, c19::replay),
        "C20" => (c20::run, c20::replay),
        _ => return None,
    })
}

pub fn run(ctx: &Ctx) -> i32 {
    match table(&ctx.prop) {
        Some((r, _)) => r(ctx),
        None => {
            eprintln!("ENGINE-ERROR unknown property {}", ctx.prop);
            2
        }
    }
}

/// re-execute the case of a replay artefact twice, insisting on identical observations
pub fn replay(ctx: &Ctx, path: &str) -> i32 {
    let text = match std::fs::read_to_string(path) {
        Ok(t) => t,
        Err(e) => {
            eprintln!("ENGINE-ERROR cannot read {}: {}", path, e);
            return 2;
        }
    };
    let v: Value = match serde_json::from_str(&text) {
        Ok(v) => v,
        Err(e) => {
            eprintln!("ENGINE-ERROR cannot parse {}: {}", path, e);
            return 2;
        }
    };
    let case = &v["case"];
    let f: ReplayFn = match table(&ctx.prop) {
        Some((_, f)) => f,
        None => {
            eprintln!("ENGINE-ERROR no replay for {}", ctx.prop);
            return 2;
        }
    };
    let mut a = f(ctx, case);
    if let Err(e) = &a {
        if e.contains("re-derived") || e == "kind" || e.contains("unknown case kind") || case["kind"].as_str() == Some("watchdog") {
            // cases that are one element of a complete enumeration: re-run the (deterministic) quick check in replay mode
            // (nothing is written) and report whether the artefact's key is violated again
            let key = v["key"].as_str().unwrap_or("").to_string();
            println!("REPLAY re-running the complete check of {} (key {})", ctx.prop, key);
            let code = run(ctx);
            return match code {
                0 => {
                    println!("REPLAY property={} holds on this case", ctx.prop);
                    0
                }
                1 => {
                    println!("VIOLATION property={} replay={}", ctx.prop, path);
                    1
                }
                c => c,
            };
        }
    }
    let b = f(ctx, case);
    if a.is_ok() && b.is_err() {
        a = b.clone();
    }
    match (a, b) {
        (Ok((va, oa)), Ok((vb, ob))) => {
            println!("REPLAY observation: {}", oa);
            if va != vb || oa != ob {
                eprintln!("ENGINE-ERROR replay not deterministic: second observation {}", ob);
                return 2;
            }
            if va {
                println!("VIOLATION property={} replay={}", ctx.prop, path);
                1
            } else {
                println!("REPLAY property={} holds on this case", ctx.prop);
                0
            }
        }
        (Err(e), _) | (_, Err(e)) => {
            eprintln!("ENGINE-ERROR replay failed: {}", e);
            2
        }
    }
}

pub fn child_main(args: &[String]) -> i32 {
    match args.first().map(|s| s.as_str()) {
        Some("c18") => c18::child(&args[1..]),
        Some("c09") => c09::child(&args[1..]),
        Some("c12") => c12::child(&args[1..]),
        _ => {
            eprintln!("ENGINE-ERROR unknown child {:?}", args);
            2
        }
    }
}
