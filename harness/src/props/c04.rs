//! C04 — unweighted sketches have set semantics.
//! Engine A: every stream up to a length over a small alphabet (every order, every repetition) x every chunking into
//! sketch / sketch_slice calls; one observable sketch per set of distinct items; stored hashes belong to streamed items.

use crate::common::Ctx;
use crate::sketchers::{catalogue, Applied, Kind, Op};
use fnv::FnvHasher;
use rayon::prelude::*;
use serde_json::{json, Value};
use std::collections::{BTreeMap, BTreeSet};
use std::hash::{BuildHasher, BuildHasherDefault};
use twox_hash::XxHash32;

const BURST_START: u64 = 100;
const BURST_LEN: usize = 12;

/// symbol -> items
fn items_of(sym: u8, nsym: u8) -> Vec<u64> {
    if sym == nsym - 1 {
        (BURST_START..BURST_START + BURST_LEN as u64).collect()
    } else {
        vec![sym as u64] // item 0 is included on purpose (its pass-through hash is 0)
    }
}

fn all_streams(nsym: u8, maxlen: usize) -> Vec<Vec<u8>> {
    let mut out: Vec<Vec<u8>> = Vec::new();
    let mut layer: Vec<Vec<u8>> = vec![vec![]];
    for _ in 0..maxlen {
        let mut next = Vec::with_capacity(layer.len() * nsym as usize);
        for s in &layer {
            for a in 0..nsym {
                let mut t = s.clone();
                t.push(a);
                next.push(t);
            }
        }
        out.extend(next.iter().cloned());
        layer = next;
    }
    out
}

#[derive(Clone, Debug, PartialEq)]
enum Mode {
    ItemWise,
    /// cut mask over the L-1 gaps; each chunk is one slice call
    Chunks(u32),
    /// item-wise with an empty slice call after every item
    ItemWiseWithEmptySlices,
}

type Obs = Result<Vec<u64>, String>;

fn run_stream(kind: &Kind, stream: &[u8], nsym: u8, mode: &Mode) -> Obs {
    let mut inst = (kind.build)();
    let do_op = |inst: &mut Box<dyn crate::sketchers::Inst>, op: &Op| -> Result<(), String> {
        match inst.apply(op) {
            Applied::Done | Applied::Unsupported => Ok(()),
            Applied::Failed(e) => Err(format!("{:?} failed: {}", op, e)),
        }
    };
    match mode {
        Mode::ItemWise | Mode::ItemWiseWithEmptySlices => {
            for &s in stream {
                if s == nsym - 1 {
                    do_op(&mut inst, &Op::Burst(BURST_START, BURST_LEN))?;
                } else {
                    do_op(&mut inst, &Op::Item(s as u64))?;
                }
                if *mode == Mode::ItemWiseWithEmptySlices && !kind.has_end {
                    let _ = inst.apply(&Op::Slice(vec![])); // reports an error, must change nothing
                }
            }
        }
        Mode::Chunks(mask) => {
            let mut chunk: Vec<u64> = Vec::new();
            for (i, &s) in stream.iter().enumerate() {
                chunk.extend(items_of(s, nsym));
                let cut = i + 1 == stream.len() || (mask >> i) & 1 == 1;
                if cut {
                    do_op(&mut inst, &Op::Slice(chunk.clone()))?;
                    chunk.clear();
                }
            }
        }
    }
    let mut o = inst.observe()?;
    if kind.name.starts_with("SetSketcher") {
        // the sketch proper: registers and the cardinality statistics derived from them; the overflow counter and the
        // lazily maintained lower bound on the registers are diagnostics that legitimately depend on the history (C05)
        o.truncate(size_of(kind) + 2);
    }
    Ok(o)
}

/// long streams (a counter of items narrower than usize - SuperMinHash keeps an item rank - shows after 2^16 items): 70 000
/// distinct items forward item-wise, reversed item-wise, forward with every third item repeated, as one slice, and as two
/// slices, must give one sketch
fn long_streams(kind: &Kind) -> (u64, Option<String>) {
    let n = 70_000u64;
    let fwd: Vec<u64> = (1..=n).collect();
    let rev: Vec<u64> = fwd.iter().rev().cloned().collect();
    let rep: Vec<u64> = fwd.iter().flat_map(|x| if x % 3 == 0 { vec![*x, *x] } else { vec![*x] }).collect();
    let run = |plan: Vec<Op>| -> Obs {
        let mut inst = (kind.build)();
        for op in &plan {
            if let Applied::Failed(e) = inst.apply(op) {
                return Err(format!("op failed: {}", e));
            }
        }
        let mut o = inst.observe()?;
        if kind.name.starts_with("SetSketcher") {
            o.truncate(size_of(kind) + 2);
        }
        Ok(o)
    };
    let items = |v: &[u64]| -> Vec<Op> { v.iter().map(|x| Op::Item(*x)).collect() };
    let plans: Vec<(&str, Vec<Op>)> = vec![
        ("reversed, item by item", items(&rev)),
        ("every third item repeated", items(&rep)),
        ("one slice", vec![Op::Slice(fwd.clone())]),
        ("two slices", vec![Op::Slice(fwd[..40_000].to_vec()), Op::Slice(fwd[40_000..].to_vec())]),
    ];
    let reference = run(items(&fwd));
    let mut execs = 1;
    for (name, plan) in plans {
        if kind.has_end && name == "two slices" {
            continue; // the densified sketchers finish at the end of a slice call
        }
        execs += 1;
        let o = run(plan);
        if o != reference {
            return (execs, Some(format!("{}: the stream of items 1..=70000 gives a different sketch when presented as '{}' than forward item by item", kind.name, name)));
        }
    }
    (execs, None)
}

fn base_name(kind: &Kind) -> String {
    kind.name.split(" m=").next().unwrap_or(&kind.name).to_string()
}

/// for hash-storing sketches: the positions of the observation that hold item hashes, and the hash function
fn stored_hash_check(kind: &Kind, m: usize, obs: &[u64], items: &BTreeSet<u64>) -> Option<String> {
    let name = &kind.name;
    let nohash = |x: &u64| BuildHasherDefault::<probminhash::nohasher::NoHashHasher>::default().hash_one(x);
    let (range, hashes): (std::ops::Range<usize>, BTreeSet<u64>) = if name.starts_with("SuperMinHash2<u64,NoHash>") {
        (0..m, items.iter().map(nohash).collect())
    } else if name.starts_with("OptDensMinHash<f64,NoHash>") || name.starts_with("RevOptDensMinHash<f64,NoHash>") {
        (m..2 * m, items.iter().map(nohash).collect())
    } else if name.starts_with("SuperMinHash2<u64>") {
        (0..m, items.iter().map(|x| BuildHasherDefault::<FnvHasher>::default().hash_one(x)).collect())
    } else if name.starts_with("SuperMinHash2<u32") {
        (0..m, items.iter().map(|x| BuildHasherDefault::<XxHash32>::default().hash_one(x)).collect())
    } else if name.starts_with("OptDens") || name.starts_with("RevOptDens") {
        (m..2 * m, items.iter().map(|x| BuildHasherDefault::<FnvHasher>::default().hash_one(x)).collect())
    } else {
        return None;
    };
    if obs.len() < range.end {
        return None;
    }
    for k in range.clone() {
        if !hashes.contains(&obs[k]) {
            return Some(format!("position {} holds {:#x}, which is not the hash of a streamed item", k - range.start, obs[k]));
        }
    }
    None
}

struct KindOut {
    execs: u64,
    groups: u64,
    distinct_obs: u64,
    bad: Option<(String, Value)>,
}

fn size_of(kind: &Kind) -> usize {
    kind.name.split(" m=").nth(1).and_then(|s| s.split_whitespace().next()).and_then(|s| s.parse().ok()).unwrap_or(1)
}

fn check_kind(kind: &Kind, nsym: u8, maxlen: usize, chunk_maxlen: usize) -> KindOut {
    let m = size_of(kind);
    let streams = all_streams(nsym, maxlen);
    // group by the set of distinct symbols
    let mut groups: BTreeMap<Vec<u8>, Vec<usize>> = BTreeMap::new();
    for (i, s) in streams.iter().enumerate() {
        let mut k: Vec<u8> = s.clone();
        k.sort();
        k.dedup();
        groups.entry(k).or_default().push(i);
    }
    let group_list: Vec<(&Vec<u8>, &Vec<usize>)> = groups.iter().collect();
    let res: Vec<(u64, Option<(String, Value)>, Option<Vec<u64>>)> = group_list
        .par_iter()
        .map(|(set, idxs)| {
            let reference = run_stream(kind, set, nsym, &Mode::ItemWise);
            let items: BTreeSet<u64> = set.iter().flat_map(|s| items_of(*s, nsym)).collect();
            let mut n = 1u64;
            let mut bad: Option<(String, Value)> = None;
            let show = |o: &Obs| match o {
                Ok(v) => format!("{:x?}", &v[..v.len().min(5)]),
                Err(e) => format!("Err({})", e),
            };
            if let Ok(v) = &reference {
                if let Some(w) = stored_hash_check(kind, m, v, &items) {
                    bad = Some((format!("{}: stream {:?}: {}", kind.name, set, w), json!({"kind": "stream", "sketcher": kind.name, "nsym": nsym, "stream": set, "mode": "itemwise"})));
                }
            } else {
                bad = Some((format!("{}: stream {:?} item-wise: {}", kind.name, set, show(&reference)), json!({"kind": "stream", "sketcher": kind.name, "nsym": nsym, "stream": set, "mode": "itemwise"})));
            }
            for &i in idxs.iter() {
                let s = &streams[i];
                let mut modes: Vec<Mode> = vec![Mode::ItemWise];
                if kind.has_end {
                    // densified sketchers are finished once: item-wise + finishing step versus one slice call
                    modes.push(Mode::Chunks(0));
                } else {
                    if s.len() <= chunk_maxlen {
                        for mask in 0..(1u32 << (s.len() - 1)) {
                            modes.push(Mode::Chunks(mask));
                        }
                    } else {
                        modes.push(Mode::Chunks(0));
                        modes.push(Mode::Chunks(0b10101));
                    }
                    if s.len() <= 3 {
                        modes.push(Mode::ItemWiseWithEmptySlices);
                    }
                }
                for mode in modes {
                    let o = run_stream(kind, s, nsym, &mode);
                    n += 1;
                    if o != reference && bad.is_none() {
                        bad = Some((
                            format!(
                                "{}: streams {:?} ({:?}) and {:?} (item-wise) contain the same distinct items but give different sketches: {} vs {}",
                                kind.name,
                                s,
                                mode,
                                set,
                                show(&o),
                                show(&reference)
                            ),
                            json!({"kind": "stream", "sketcher": kind.name, "nsym": nsym, "stream": s, "mode": format!("{:?}", mode)}),
                        ));
                    }
                }
            }
            (n, bad, reference.ok())
        })
        .collect();
    let mut out = KindOut { execs: 0, groups: groups.len() as u64, distinct_obs: 0, bad: None };
    let mut distinct: BTreeSet<Vec<u64>> = BTreeSet::new();
    for (n, bad, r) in res {
        out.execs += n;
        if out.bad.is_none() {
            out.bad = bad;
        }
        if let Some(r) = r {
            distinct.insert(r);
        }
    }
    out.distinct_obs = distinct.len() as u64;
    out
}

/// resolution of the per-item random value that decides which item owns a position: two different items must not share it,
/// otherwise the position goes to whichever came last (order dependence).  Size-1 sketches of every identifier of a block;
/// SuperMinHash2 through hook H5 (values), SuperMinHash<f64> through the sketch value itself.
fn resolution_check(ctx: &Ctx, n: u64) -> u64 {
    use probminhash::nohasher::NoHashHasher;
    use probminhash::superminhasher::SuperMinHash;
    use probminhash::superminhasher2::SuperMinHash2;
    let mut evals = 0u64;
    macro_rules! smh2 {
        ($ity:ty, $item:ty, $h:ty, $label:expr) => {{
            let mut vals: Vec<(usize, u64)> = (0..n)
                .into_par_iter()
                .map(|i| {
                    let mut s = SuperMinHash2::<$ity, $item, $h>::new(1, BuildHasherDefault::<$h>::default());
                    s.sketch(&(i as $item)).unwrap();
                    (s.verif_values()[0], i)
                })
                .collect();
            evals += n;
            vals.sort_unstable();
            let dups: Vec<(u64, u64)> = vals.windows(2).filter(|w| w[0].0 == w[1].0).map(|w| (w[0].1, w[1].1)).collect();
            if let Some((x, y)) = dups.first() {
                // make it concrete: the two orders of the pair give different sketches
                let run = |a: u64, b: u64| {
                    let mut s = SuperMinHash2::<$ity, $item, $h>::new(1, BuildHasherDefault::<$h>::default());
                    s.sketch(&(a as $item)).unwrap();
                    s.sketch(&(b as $item)).unwrap();
                    s.get_hsketch()[0] as u64
                };
                let (f, b) = (run(*x, *y), run(*y, *x));
                ctx.violation(
                    &format!("set-semantics:resolution:{}", $label),
                    &format!(
                        "{}: among {} items, {} pairs draw the same random value for position 0 (first: items {} and {}); streamed as [{},{}] the size-1 sketch is {:#x}, as [{},{}] it is {:#x}",
                        $label, n, dups.len(), x, y, x, y, f, y, x, b
                    ),
                    json!({"kind": "resolution", "sketcher": $label, "n": n, "items": [x, y]}),
                );
            }
        }};
    }
    smh2!(u64, u64, FnvHasher, "SuperMinHash2<u64,Fnv>");
    smh2!(u32, u64, XxHash32, "SuperMinHash2<u32,XxHash32>");
    smh2!(u32, u32, NoHashHasher, "SuperMinHash2<u32,NoHash>");
    smh2!(u64, u64, NoHashHasher, "SuperMinHash2<u64,NoHash>");
    // SuperMinHash<f64>: the sketch value of a single item at size 1 is its uniform fraction
    let mut vals: Vec<u64> = (0..n)
        .into_par_iter()
        .map(|i| {
            let mut s = SuperMinHash::<f64, u64, FnvHasher>::new(1, BuildHasherDefault::<FnvHasher>::default());
            s.sketch(&i).unwrap();
            s.get_hsketch()[0].to_bits()
        })
        .collect();
    evals += n;
    vals.sort_unstable();
    let dup = vals.windows(2).filter(|w| w[0] == w[1]).count();
    if dup > 0 {
        ctx.violation(
            "set-semantics:resolution:SuperMinHash<f64>",
            &format!("SuperMinHash<f64>: among the size-1 sketches of {} items, {} pairs have the same value: positions can tie between different items", n, dup),
            json!({"kind": "resolution", "sketcher": "SuperMinHash<f64>", "n": n}),
        );
    }
    evals
}

fn sizes(quick: bool) -> Vec<usize> {
    if quick {
        vec![1, 2, 3, 7, 64]
    } else {
        vec![1, 2, 3, 5, 7, 16, 64, 200]
    }
}

fn unweighted(k: &Kind) -> bool {
    k.name.starts_with("SuperMinHash") || k.name.starts_with("SetSketcher") || k.name.starts_with("OptDens") || k.name.starts_with("RevOptDens")
}

pub fn run(ctx: &Ctx) -> i32 {
    crate::common::install_hang_watchdog(ctx, "model_checking", 20);
    let kinds: Vec<Kind> = catalogue(&sizes(ctx.quick()), true).into_iter().filter(unweighted).collect();
    let nsym: u8 = ctx.pick(5, 6);
    let maxlen = ctx.pick(5usize, 6);
    let chunk_maxlen = ctx.pick(5usize, 6);
    let mut execs = 0u64;
    let mut groups = 0u64;
    let mut distinct = 0u64;
    let mut per_kind = Vec::new();
    for kind in &kinds {
        if per_kind.len() % 13 == 2 {
            let stream = vec![2u8, 0, 2, nsym - 1, 0];
            let a = run_stream(kind, &stream, nsym, &Mode::Chunks(0b0010));
            let mut set = stream.clone();
            set.sort();
            set.dedup();
            let r = run_stream(kind, &set, nsym, &Mode::ItemWise);
            ctx.sample(json!({"sketcher": kind.name, "stream_symbols": stream, "chunking_mask": 2, "equal_to_canonical_stream": a == r,
                "sketch_head": a.as_ref().ok().map(|v| v.iter().take(4).map(|w| format!("{:#x}", w)).collect::<Vec<_>>())}));
        }
        let o = check_kind(kind, nsym, maxlen, chunk_maxlen);
        execs += o.execs;
        groups += o.groups;
        distinct += o.distinct_obs;
        if let Some((what, case)) = o.bad {
            ctx.violation(&format!("set-semantics:{}", base_name(kind)), &what, case);
        }
        per_kind.push(json!({"sketcher": kind.name, "executions": o.execs, "groups": o.groups, "distinct_sketches": o.distinct_obs}));
    }
    // sketch sizes around 2^16 (an index, counter or level narrower than usize shows there): every stream of length <= 3
    // over two items and the burst, every chunking
    let big_sizes: Vec<usize> = ctx.pick(vec![65_537], vec![65_535, 65_536, 65_537]);
    let big_len = ctx.pick(2usize, 3);
    // (the reverse densification needs about m ln m generator seedings per finish: seconds per run at this size)
    let big_kinds: Vec<Kind> = catalogue(&big_sizes, true).into_iter().filter(unweighted).filter(|k| ctx.pick(!k.name.starts_with("RevOptDens"), true)).collect();
    for kind in &big_kinds {
        let o = check_kind(kind, 3, big_len, big_len);
        execs += o.execs;
        groups += o.groups;
        distinct += o.distinct_obs;
        if let Some((what, case)) = o.bad {
            ctx.violation(&format!("set-semantics:{}", base_name(kind)), &what, case);
        }
        per_kind.push(json!({"sketcher": kind.name, "executions": o.execs, "groups": o.groups, "distinct_sketches": o.distinct_obs}));
    }
    // long streams on the sketchers of size 64
    {
        let long_kinds: Vec<&Kind> = kinds.iter().filter(|k| size_of(k) == 64).collect();
        let res: Vec<(u64, Option<String>)> = long_kinds.par_iter().map(|k| long_streams(k)).collect();
        for ((n, bad), k) in res.into_iter().zip(long_kinds.iter()) {
            execs += n;
            if let Some(w) = bad {
                ctx.violation(&format!("set-semantics:{}", base_name(k)), &w, json!({"kind": "long-stream", "sketcher": k.name}));
            }
        }
        println!("C04 long streams: {} sketcher kinds", long_kinds.len());
    }
    let n_res: u64 = ctx.pick(1 << 20, 1 << 23);
    execs += resolution_check(ctx, n_res);
    // orders and repetitions of {x, y} where x is a rounding witness of the f32 SuperMinHash (see c03::same_set_streams)
    let (wevals, wdetails) = crate::props::c03::same_set_streams(ctx, (crate::common::splitmix64(ctx.seed ^ 0xC04) >> 24) << 3, "set-semantics:rounding-witness");
    execs += wevals;
    println!("C04 kinds={} executions={} item-set groups={} distinct sketches={}", kinds.len(), execs, groups, distinct);
    let coverage = json!({
        "states": distinct,
        "transitions": execs,
        "traces_validated_against_impl": execs,
        "samples": [
            {"sketcher": "SuperMinHash<f64> m=7", "stream_symbols": [2, 0, 2, 4, 0], "chunking": "slices [2,0] [2,4,0]", "reference": "items {1,3,burst} streamed once item-wise"},
            {"sketcher": "RevOptDensMinHash<f32> m=64", "stream_symbols": [1, 1, 3], "modes": ["item-wise + end_sketch", "one sketch_slice"]},
            {"symbols": "0..3 -> items 0..3, last symbol -> burst of 12 fresh items (100..111)"}
        ],
        "exhaustive": true,
        "evaluations": execs,
        "distinct_nontrivial": distinct,
        "rule": "for SuperMinHash f32/f64, SuperMinHash2 u32/u64, SetSketcher u8/u16/u32 (3 parameter sets) and both densified sketchers f32/f64 (Fnv hasher; plus no-op-hasher kinds where item 0 hashes to 0), sizes {1,2,3,7,64} (+5,16,200) - and, with streams of length <= 2 (3) over two items and the burst, size 65537 (65535, 65536, 65537) -: every stream of length 1..5 (6) over 5 (6) symbols (4-5 items and a burst of 12 fresh items), i.e. every order and every repetition, under item-wise calls, every chunking into slice calls (all 2^(L-1) cut patterns) and item-wise calls interleaved with empty slices; densified sketchers: item-wise + end_sketch versus one slice; all streams with the same set of distinct items must give the bit-identical observation (all views); stored hashes must be hashes of streamed items; the random value deciding the owner of a position must be distinct for all 2^20 (2^23) items of a block (size-1 sketches, hook H5 for SuperMinHash2); for the kinds of size 64: the stream of items 1..=70000 forward, reversed, with repetitions, as one slice and as two; for m in {4,8,12,16,32}: 7 repeating / reordering streams of {x,y} against [x,y] for every x among up to 48 rounding witnesses of the f32 SuperMinHash (items with a single-item value that is an exact integer, found by scanning 2^20 (2^22) items) and y from a 64-item block; distinct = distinct sketches (one per item set and kind)",
        "rounding_witness_streams": wdetails,
        "sketcher_kinds": kinds.len(),
        "item_set_groups": groups,
        "per_kind": per_kind,
    });
    ctx.finish(
        "model_checking",
        coverage,
        vec![
            "exact float ties between different items at one position would be legitimately order dependent; none occurs in the alphabets used (any mismatch is reported, so a tie would show as a violation to be classified)".into(),
            "longer streams behave like the explored ones (the burst symbol drives a_upper / lower_k / nb_empty through their regimes inside the bound)".into(),
        ],
    )
}

pub fn replay(_ctx: &Ctx, case: &Value) -> Result<(bool, String), String> {
    let name = case["sketcher"].as_str().ok_or("sketcher")?;
    let mut kinds = catalogue(&sizes(false), true);
    kinds.extend(catalogue(&[65_535, 65_536, 65_537], true));
    let kind = kinds.iter().find(|k| k.name == name).ok_or("unknown sketcher kind")?;
    let nsym = case["nsym"].as_u64().ok_or("nsym")? as u8;
    let stream: Vec<u8> = case["stream"].as_array().ok_or("stream")?.iter().map(|v| v.as_u64().unwrap_or(0) as u8).collect();
    let modestr = case["mode"].as_str().unwrap_or("itemwise");
    let mode = if modestr.starts_with("Chunks(") {
        Mode::Chunks(modestr.trim_start_matches("Chunks(").trim_end_matches(')').parse().unwrap_or(0))
    } else if modestr.contains("Empty") {
        Mode::ItemWiseWithEmptySlices
    } else {
        Mode::ItemWise
    };
    let mut set = stream.clone();
    set.sort();
    set.dedup();
    let reference = run_stream(kind, &set, nsym, &Mode::ItemWise);
    let o = run_stream(kind, &stream, nsym, &mode);
    let items: BTreeSet<u64> = set.iter().flat_map(|s| items_of(*s, nsym)).collect();
    let mut viol = o != reference;
    let mut extra = String::new();
    if let Ok(v) = &reference {
        if let Some(w) = stored_hash_check(kind, size_of(kind), v, &items) {
            viol = true;
            extra = w;
        }
    }
    Ok((viol, format!("same sketch as the canonical stream: {} {}", o == reference, extra)))
}
