//! C18 — byte identities of hashed objects are faithful and memory safe.
//! Engine C: exhaustive / structured sweeps of the value domains of every `Sig` type against the native-endian
//! concatenation; the vector types run in supervised sub-processes (an abort is an observation), under valgrind
//! (quick + thorough) and under miri (thorough).

use crate::common::{guarded_mut, run_cmd, run_self, verif_root, Ctx};
use indexmap::IndexMap;
use probminhash::probminhasher::sig::Sig;
use probminhash::probminhasher::ProbMinHash3aSha;
use rayon::prelude::*;
use serde_json::{json, Value};
use std::fmt::Debug;
use std::time::Duration;

// ------------------------------------------------------------------------------------------------
// value generators

fn vec_alphabet_u8() -> Vec<u8> {
    vec![0, 1, 0x7F, 0x80, 0xFF]
}
fn vec_alphabet_u16() -> Vec<u16> {
    vec![0, 1, 0x00FF, 0xFF00, 0xFFFF]
}
fn vec_alphabet_u32() -> Vec<u32> {
    vec![0, 1, 0x00FF_00FF, 0xFF00_0000, 0xFFFF_FFFF]
}

/// all vectors of length 0..=maxlen over the alphabet, then some long ones
fn all_vectors<T: Copy>(alpha: &[T], maxlen: usize, long: &[usize]) -> Vec<Vec<T>> {
    let mut out: Vec<Vec<T>> = vec![vec![]];
    let mut layer: Vec<Vec<T>> = vec![vec![]];
    for _ in 0..maxlen {
        let mut next = Vec::new();
        for v in &layer {
            for a in alpha {
                let mut w = v.clone();
                w.push(*a);
                next.push(w);
            }
        }
        out.extend(next.iter().cloned());
        layer = next;
    }
    for &n in long {
        out.push((0..n).map(|i| alpha[(i * 7 + i / 5) % alpha.len()]).collect());
    }
    out
}

fn u64_patterns() -> Vec<u64> {
    let mut v: Vec<u64> = Vec::new();
    for i in 0..64 {
        for j in 0..64 {
            let a = (1u64 << i) | (1u64 << j);
            v.push(a);
            v.push(!a);
            v.push((1u64 << i).wrapping_sub(1u64 << j));
        }
    }
    for b in 0..=255u64 {
        for pos in 0..8 {
            v.push(b << (8 * pos));
            v.push(!(b << (8 * pos)));
        }
        v.push(b.wrapping_mul(0x0101010101010101));
    }
    for i in 0..(1u64 << 16) {
        v.push(i);
        v.push(i << 48);
        v.push(i.wrapping_mul(0x9E3779B97F4A7C15));
    }
    v
}

fn strings() -> Vec<String> {
    let alpha = ["", "a", "é", "\u{10348}", "\0"];
    let mut out = Vec::new();
    for a in alpha {
        for b in alpha {
            for c in alpha {
                for d in alpha {
                    out.push(format!("{}{}{}{}", a, b, c, d));
                }
            }
        }
    }
    // characters a "normalising" conversion would treat specially (byte order mark, zero-width and other spaces, line ends,
    // combining accent vs precomposed letter, case, the replacement character, the largest code point): up to 3 pieces
    let special = ["\u{feff}", "\u{fffe}", "\u{200b}", " ", "\u{a0}", "\n", "\r\n", "\t", "e\u{301}", "A", "\u{fffd}", "\u{10ffff}", "a"];
    for a in special {
        out.push(a.to_string());
        for b in special {
            out.push(format!("{}{}", a, b));
            for c in special {
                out.push(format!("{}{}{}", a, b, c));
            }
        }
    }
    out.push("x".repeat(1000));
    out.push("é\u{10348}".repeat(50_000));
    out.sort();
    out.dedup();
    out
}

// ------------------------------------------------------------------------------------------------
// checks

/// the same vectors again, but with spare capacity (built in a larger allocation, and re-filled after clear()):
/// the identity must depend on the value only, not on the allocation behind it
fn with_spare_capacity<T: Copy>(vs: &[Vec<T>], filler: T) -> Vec<Vec<T>> {
    let mut out = Vec::with_capacity(2 * vs.len());
    for (i, v) in vs.iter().enumerate() {
        if v.len() > 64 {
            continue;
        }
        let mut a: Vec<T> = Vec::with_capacity(v.len() + 1 + i % 7);
        a.extend_from_slice(v);
        out.push(a);
        let mut b: Vec<T> = vec![filler; v.len() + 5 + i % 3];
        b.clear();
        b.extend_from_slice(v);
        out.push(b);
    }
    out
}

/// returns (count, first mismatch)
fn check_values<T: Sig + Debug>(vals: &[T], expect: impl Fn(&T) -> Vec<u8>) -> (u64, Option<String>) {
    let mut n = 0u64;
    for v in vals {
        n += 1;
        let got = v.get_sig();
        let exp = expect(v);
        if got != exp {
            let show = format!("{:?}", v);
            return (n, Some(format!("value {} : bytes {:02x?} expected {:02x?}", &show[..show.len().min(80)], &got[..got.len().min(24)], &exp[..exp.len().min(24)])));
        }
    }
    (n, None)
}

/// a key type whose identity is, by construction, the byte string it holds (it implements only `get_sig`)
#[derive(Clone, Debug, PartialEq, Eq, Hash)]
struct Declared(Vec<u8>);
impl Sig for Declared {
    fn get_sig(&self) -> Vec<u8> {
        self.0.clone()
    }
}

/// the Sha-based ProbMinHash must see a key of type T exactly as its declared bytes `get_sig()`: the same weighted set fed
/// with the keys themselves and with `Declared(key.get_sig())` keys must select the same key at every position, for every
/// insertion order (a scratch buffer reused between keys, an empty identity, a short cut for some lengths show here)
fn sha_uses_declared_bytes<T: Sig + Debug + Clone + Eq + std::hash::Hash>(keys: &[T], init: T) -> Option<String> {
    let weights = [1.0f64, 3.0, 0.5, 2.0, 1.5];
    let n = keys.len().min(4);
    let decl: Vec<Declared> = keys[..n].iter().map(|k| Declared(k.get_sig())).collect();
    for i in 0..n {
        for j in 0..i {
            if decl[i] == decl[j] {
                return None; // not faithful: reported by the byte checks
            }
        }
    }
    let init_d = Declared(vec![0xEE; 37]);
    for perm in crate::common::permutations(n) {
        let mut map: IndexMap<T, f64> = IndexMap::new();
        let mut map_d: IndexMap<Declared, f64> = IndexMap::new();
        for &i in &perm {
            map.insert(keys[i].clone(), weights[i]);
            map_d.insert(decl[i].clone(), weights[i]);
        }
        let mut h = ProbMinHash3aSha::<T>::new(8, init.clone());
        h.hash_weigthed_idxmap(&map);
        let mut hd = ProbMinHash3aSha::<Declared>::new(8, init_d.clone());
        hd.hash_weigthed_idxmap(&map_d);
        let a: Vec<Option<usize>> = h.get_signature().iter().map(|s| keys[..n].iter().position(|k| k == s)).collect();
        let b: Vec<Option<usize>> = hd.get_signature().iter().map(|s| decl.iter().position(|k| k == s)).collect();
        if a != b {
            return Some(format!("ProbMinHash3aSha on keys {:?} inserted in the order {:?} selects key indices {:?}, on keys that are their get_sig() bytes it selects {:?}", &keys[..n], perm, a, b));
        }
        // the same through the HashMap entry point
        let hm: std::collections::HashMap<T, f64> = map.iter().map(|(k, w)| (k.clone(), *w)).collect();
        let mut h2 = ProbMinHash3aSha::<T>::new(8, init.clone());
        h2.hash_weigthed_hashmap(&hm);
        let a2: Vec<Option<usize>> = h2.get_signature().iter().map(|s| keys[..n].iter().position(|k| k == s)).collect();
        if a2 != b {
            return Some(format!("ProbMinHash3aSha (HashMap entry) on keys {:?} selects key indices {:?}, on keys that are their get_sig() bytes it selects {:?}", &keys[..n], a2, b));
        }
    }
    None
}

/// the Sha-based ProbMinHash fed with keys of type T must be insertion-order independent
fn sha_order_independent<T: Sig + Debug + Clone + Eq + std::hash::Hash>(keys: &[T], init: T) -> Option<String> {
    if let Some(w) = sha_uses_declared_bytes(keys, init.clone()) {
        return Some(w);
    }
    let weights = [1.0f64, 3.0, 0.5, 2.0];
    let n = keys.len().min(4);
    let mut first: Option<Vec<T>> = None;
    for perm in crate::common::permutations(n) {
        let mut map: IndexMap<T, f64> = IndexMap::new();
        for &i in &perm {
            map.insert(keys[i].clone(), weights[i]);
        }
        let mut h = ProbMinHash3aSha::<T>::new(8, init.clone());
        h.hash_weigthed_idxmap(&map);
        let sig = h.get_signature().clone();
        if sig.iter().any(|s| !keys[..n].contains(s)) {
            return Some(format!("ProbMinHash3aSha signature holds a key that was not inserted: {:?}", sig));
        }
        match &first {
            None => first = Some(sig),
            Some(f) => {
                if *f != sig {
                    return Some(format!("ProbMinHash3aSha signature depends on insertion order for keys {:?}", &keys[..n]));
                }
            }
        }
    }
    None
}

/// child: vector types.  Prints one line per finding and a final DONE line.
fn child_vectors(which: &str, maxlen: usize, with_long: bool) -> i32 {
    let long: Vec<usize> = if with_long { vec![255, 256, 257, 1000, 65_535, 65_536, 65_537, 1_000_000] } else { vec![17] };
    let mut n = 0u64;
    if which == "vec8" || which == "all" {
        let vs = all_vectors(&vec_alphabet_u8(), maxlen, &long);
        let (c, bad) = check_values(&vs, |v| v.clone());
        n += c;
        if let Some(b) = bad {
            println!("MISMATCH type=Vec<u8> {}", b);
        }
        let spare = with_spare_capacity(&vs, 0xAAu8);
        let (c, bad) = check_values(&spare, |v| v.clone());
        n += c;
        if let Some(b) = bad {
            println!("MISMATCH type=Vec<u8> (vector with spare capacity) {}", b);
        }
        if let Some(w) = sha_order_independent(&vs[1..5.min(vs.len())], vec![9u8]) {
            println!("MISMATCH type=Vec<u8> {}", w);
        }
        // the empty vector (empty identity) among the keys
        if let Some(w) = sha_order_independent(&vs[0..4.min(vs.len())], vec![9u8]) {
            println!("MISMATCH type=Vec<u8> {}", w);
        }
    }
    if which == "vec16" || which == "all" {
        let vs = all_vectors(&vec_alphabet_u16(), maxlen, &long);
        let (c, bad) = check_values(&vs, |v| v.iter().flat_map(|x| x.to_ne_bytes()).collect());
        n += c;
        if let Some(b) = bad {
            println!("MISMATCH type=Vec<u16> {}", b);
        }
        let spare = with_spare_capacity(&vs, 0xAAAAu16);
        let (c, bad) = check_values(&spare, |v| v.iter().flat_map(|x| x.to_ne_bytes()).collect());
        n += c;
        if let Some(b) = bad {
            println!("MISMATCH type=Vec<u16> (vector with spare capacity) {}", b);
        }
        if let Some(w) = sha_order_independent(&vs[1..5.min(vs.len())], vec![9u16]) {
            println!("MISMATCH type=Vec<u16> {}", w);
        }
        // the empty vector (empty identity) among the keys
        if let Some(w) = sha_order_independent(&vs[0..4.min(vs.len())], vec![9u16]) {
            println!("MISMATCH type=Vec<u16> {}", w);
        }
    }
    if which == "vec32" || which == "all" {
        let vs = all_vectors(&vec_alphabet_u32(), maxlen, &long);
        let (c, bad) = check_values(&vs, |v| v.iter().flat_map(|x| x.to_ne_bytes()).collect());
        n += c;
        if let Some(b) = bad {
            println!("MISMATCH type=Vec<u32> {}", b);
        }
        let spare = with_spare_capacity(&vs, 0xAAAA_AAAAu32);
        let (c, bad) = check_values(&spare, |v| v.iter().flat_map(|x| x.to_ne_bytes()).collect());
        n += c;
        if let Some(b) = bad {
            println!("MISMATCH type=Vec<u32> (vector with spare capacity) {}", b);
        }
        if let Some(w) = sha_order_independent(&vs[1..5.min(vs.len())], vec![9u32]) {
            println!("MISMATCH type=Vec<u32> {}", w);
        }
        // the empty vector (empty identity) among the keys
        if let Some(w) = sha_order_independent(&vs[0..4.min(vs.len())], vec![9u32]) {
            println!("MISMATCH type=Vec<u32> {}", w);
        }
    }
    if which == "all" {
        // scalars and strings with small bounds (this is the body run under valgrind)
        let v8: Vec<u8> = (0..=255).collect();
        let (c, bad) = check_values(&v8, |v| vec![*v]);
        n += c;
        if let Some(b) = bad {
            println!("MISMATCH type=u8 {}", b);
        }
        let v16: Vec<u16> = (0..=u16::MAX).step_by(97).collect();
        let (c, bad) = check_values(&v16, |v| v.to_ne_bytes().to_vec());
        n += c;
        if let Some(b) = bad {
            println!("MISMATCH type=u16 {}", b);
        }
        let vi16: Vec<i16> = (i16::MIN..=i16::MAX).step_by(97).collect();
        let (c, bad) = check_values(&vi16, |v| v.to_ne_bytes().to_vec());
        n += c;
        if let Some(b) = bad {
            println!("MISMATCH type=i16 {}", b);
        }
        let v32: Vec<u32> = (0..4096u32).map(|i| i.wrapping_mul(0x9E3779B9)).collect();
        let (c, bad) = check_values(&v32, |v| v.to_ne_bytes().to_vec());
        n += c;
        if let Some(b) = bad {
            println!("MISMATCH type=u32 {}", b);
        }
        let vi32: Vec<i32> = v32.iter().map(|x| *x as i32).collect();
        let (c, bad) = check_values(&vi32, |v| v.to_ne_bytes().to_vec());
        n += c;
        if let Some(b) = bad {
            println!("MISMATCH type=i32 {}", b);
        }
        let v64: Vec<u64> = u64_patterns().into_iter().step_by(41).collect();
        let (c, bad) = check_values(&v64, |v| v.to_ne_bytes().to_vec());
        n += c;
        if let Some(b) = bad {
            println!("MISMATCH type=u64 {}", b);
        }
        let ss: Vec<String> = strings().into_iter().filter(|s| s.len() < 2000).collect();
        let (c, bad) = check_values(&ss, |v| v.as_bytes().to_vec());
        n += c;
        if let Some(b) = bad {
            println!("MISMATCH type=String {}", b);
        }
        if let Some(w) = sha_order_independent(&["a".to_string(), "é".to_string(), "".to_string(), "ab".to_string()], "init".to_string()) {
            println!("MISMATCH type=String {}", w);
        }
    }
    println!("DONE n={}", n);
    0
}

pub fn child(args: &[String]) -> i32 {
    // args: <which> <maxlen> <long:0|1>
    let which = args.first().map(|s| s.as_str()).unwrap_or("all");
    let maxlen: usize = args.get(1).and_then(|s| s.parse().ok()).unwrap_or(3);
    let with_long = args.get(2).map(|s| s == "1").unwrap_or(false);
    child_vectors(which, maxlen, with_long)
}

struct ChildVerdict {
    n: u64,
    mismatches: Vec<String>,
    crashed: Option<String>,
}

fn judge_child(out: &crate::common::ChildOutcome) -> ChildVerdict {
    let mut n = 0;
    let mut done = false;
    let mut mismatches = Vec::new();
    for l in out.stdout.lines() {
        if let Some(r) = l.strip_prefix("DONE n=") {
            done = true;
            n = r.trim().parse().unwrap_or(0);
        } else if l.starts_with("MISMATCH") {
            mismatches.push(l.to_string());
        }
    }
    let crashed = if out.timed_out {
        Some("child exceeded its horizon".to_string())
    } else if out.signal.is_some() {
        let tail: String = out.stderr_tail.lines().rev().take(3).collect::<Vec<_>>().join(" | ");
        Some(format!("child killed by signal {:?} ({})", out.signal, tail))
    } else if out.exit_code != Some(0) || !done {
        let tail: String = out.stderr_tail.lines().rev().take(3).collect::<Vec<_>>().join(" | ");
        Some(format!("child exit code {:?}, completed={} ({})", out.exit_code, done, tail))
    } else {
        None
    };
    ChildVerdict { n, mismatches, crashed }
}

fn type_key(line: &str) -> String {
    line.split_whitespace().find(|w| w.starts_with("type=")).map(|w| w["type=".len()..].to_string()).unwrap_or_else(|| "?".into())
}

pub fn run(ctx: &Ctx) -> i32 {
    let mut evals = 0u64;
    let mut distinct = 0u64;
    let mut parts: Vec<Value> = Vec::new();
    // ---- (1) scalar types and strings, in-process (safe code paths)
    {
        let v8: Vec<u8> = (0..=255).collect();
        let (c, bad) = check_values(&v8, |v| vec![*v]);
        evals += c;
        distinct += c;
        if let Some(b) = bad {
            ctx.violation("bytes:u8", &b, json!({"kind": "scalar", "type": "u8"}));
        }
        let v16: Vec<u16> = (0..=u16::MAX).collect();
        let (c, bad) = check_values(&v16, |v| v.to_ne_bytes().to_vec());
        evals += c;
        distinct += c;
        if let Some(b) = bad {
            ctx.violation("bytes:u16", &b, json!({"kind": "scalar", "type": "u16"}));
        }
        let vi16: Vec<i16> = (i16::MIN..=i16::MAX).collect();
        let (c, bad) = check_values(&vi16, |v| v.to_ne_bytes().to_vec());
        evals += c;
        distinct += c;
        if let Some(b) = bad {
            ctx.violation("bytes:i16", &b, json!({"kind": "scalar", "type": "i16"}));
        }
        parts.push(json!({"types": "u8,u16,i16", "values": 256 + 2 * 65536, "exhaustive": true}));
        // u32 / i32: quick = all values with at most 2 non-zero bytes + bit patterns; thorough = all 2^32
        let (c32, bad32): (u64, Option<String>) = if ctx.quick() {
            let mut vals: Vec<u32> = Vec::new();
            for p in 0..4 {
                for q in p..4 {
                    for a in 0..=255u32 {
                        for b in 0..=255u32 {
                            vals.push((a << (8 * p)) | (b << (8 * q)));
                        }
                    }
                }
            }
            for i in 0..32 {
                for j in 0..32 {
                    vals.push((1u32 << i) | (1u32 << j));
                    vals.push(!((1u32 << i) | (1u32 << j)));
                }
            }
            let (c1, b1) = check_values(&vals, |v| v.to_ne_bytes().to_vec());
            let ivals: Vec<i32> = vals.iter().map(|x| *x as i32).collect();
            let (c2, b2) = check_values(&ivals, |v| v.to_ne_bytes().to_vec());
            (c1 + c2, b1.or(b2))
        } else {
            let res: Vec<(u64, Option<String>)> = (0u32..(1 << 16))
                .into_par_iter()
                .map(|hi| {
                    let mut n = 0;
                    for lo in 0u32..(1 << 16) {
                        let x = (hi << 16) | lo;
                        n += 2;
                        if x.get_sig() != x.to_ne_bytes().to_vec() {
                            return (n, Some(format!("u32 value {:#x}", x)));
                        }
                        let y = x as i32;
                        if y.get_sig() != y.to_ne_bytes().to_vec() {
                            return (n, Some(format!("i32 value {}", y)));
                        }
                    }
                    (n, None)
                })
                .collect();
            (res.iter().map(|r| r.0).sum(), res.into_iter().find_map(|r| r.1))
        };
        evals += c32;
        distinct += c32;
        if let Some(b) = bad32 {
            ctx.violation("bytes:u32/i32", &b, json!({"kind": "scalar", "type": "u32"}));
        }
        parts.push(json!({"types": "u32,i32", "values": c32, "exhaustive": !ctx.quick()}));
        let v64 = u64_patterns();
        let (c, bad) = check_values(&v64, |v| v.to_ne_bytes().to_vec());
        evals += c;
        distinct += c;
        if let Some(b) = bad {
            ctx.violation("bytes:u64", &b, json!({"kind": "scalar", "type": "u64"}));
        }
        parts.push(json!({"types": "u64", "values": c, "exhaustive": false}));
        let ss = strings();
        let (c, bad) = check_values(&ss, |v| v.as_bytes().to_vec());
        evals += c;
        distinct += c;
        if let Some(b) = bad {
            ctx.violation("bytes:String", &b, json!({"kind": "scalar", "type": "String"}));
        }
        parts.push(json!({"types": "String", "values": c, "exhaustive": false}));
        // Sha-based ProbMinHash with scalar keys
        let r = guarded_mut(|| {
            let mut probs = Vec::new();
            if let Some(w) = sha_order_independent(&[1u8, 2, 255, 0], 7u8) {
                probs.push(("u8", w));
            }
            if let Some(w) = sha_order_independent(&[1u16, 2, 0xFF00, 0], 7u16) {
                probs.push(("u16", w));
            }
            if let Some(w) = sha_order_independent(&[1u32, 2, 0xFF000000, 0], 7u32) {
                probs.push(("u32", w));
            }
            if let Some(w) = sha_order_independent(&[1u64, 2, 1 << 63, 0], 7u64) {
                probs.push(("u64", w));
            }
            if let Some(w) = sha_order_independent(&[1i16, -2, i16::MIN, 0], 7i16) {
                probs.push(("i16", w));
            }
            if let Some(w) = sha_order_independent(&[1i32, -2, i32::MIN, 0], 7i32) {
                probs.push(("i32", w));
            }
            if let Some(w) = sha_order_independent(&["a".to_string(), "é".to_string(), "".to_string(), "ab".to_string()], "init".to_string()) {
                probs.push(("String", w));
            }
            probs
        });
        evals += 7 * 24;
        match r {
            Ok(probs) => {
                for (t, w) in probs {
                    ctx.violation(&format!("sha-order:{}", t), &w, json!({"kind": "sha", "type": t}));
                }
            }
            Err(p) => ctx.violation("sha-order:panic", &p, json!({"kind": "sha", "type": "scalar"})),
        }
    }
    // ---- (2) vector types natively in supervised sub-processes
    let maxlen = ctx.pick(5usize, 6);
    for which in ["vec8", "vec16", "vec32"] {
        let out = run_self(&["--child".into(), "c18".into(), which.into(), maxlen.to_string(), "1".into()], Duration::from_secs(120), &[]);
        let v = judge_child(&out);
        evals += v.n;
        distinct += v.n;
        parts.push(json!({"types": which, "mode": "native sub-process", "vectors": v.n, "max_len_exhaustive": maxlen, "long": [255, 256, 257, 1000, 65535, 65536, 65537, 1000000], "crashed": v.crashed}));
        let tname = match which {
            "vec8" => "Vec<u8>",
            "vec16" => "Vec<u16>",
            _ => "Vec<u32>",
        };
        for m in &v.mismatches {
            ctx.violation(&format!("bytes:{}", type_key(m)), m, json!({"kind": "child", "which": which, "maxlen": maxlen, "long": true, "mode": "native"}));
        }
        if let Some(c) = &v.crashed {
            ctx.violation(
                &format!("memory:{}", tname),
                &format!("get_sig for {} in a native run: {}", tname, c),
                json!({"kind": "child", "which": which, "maxlen": maxlen, "long": true, "mode": "native"}),
            );
        }
    }
    // ---- (3) the same sweep (small bounds) under valgrind memcheck
    let exe = std::env::current_exe().unwrap();
    let mut valgrind_status = "not available".to_string();
    if std::path::Path::new("/usr/bin/valgrind").exists() {
        for which in ["all"] {
            let args: Vec<String> = vec![
                "--error-exitcode=42".into(),
                "--quiet".into(),
                "--leak-check=no".into(),
                exe.to_str().unwrap().into(),
                "--child".into(),
                "c18".into(),
                which.into(),
                "3".into(),
                "0".into(),
            ];
            let out = run_cmd("/usr/bin/valgrind", &args, Duration::from_secs(300), &[]);
            let v = judge_child(&out);
            evals += v.n;
            let errs: Vec<&str> = out.stderr_tail.lines().filter(|l| l.contains("Invalid") || l.contains("free") || l.contains("get_sig")).take(6).collect();
            valgrind_status = format!("ran: exit={:?} signal={:?} cases={} wall={:.1}s", out.exit_code, out.signal, v.n, out.wall_s);
            parts.push(json!({"types": "all Sig types, small bounds", "mode": "valgrind memcheck --error-exitcode=42", "cases": v.n, "exit": out.exit_code, "wall_s": out.wall_s}));
            if out.exit_code == Some(42) || v.crashed.is_some() {
                // attribute to the type named in valgrind's report when possible
                let culprit = if out.stderr_tail.contains("Vec<u16>") || out.stderr_tail.contains("alloc..vec..Vec$LT$u16$GT$") {
                    "Vec<u16>"
                } else if out.stderr_tail.contains("Vec<u32>") || out.stderr_tail.contains("alloc..vec..Vec$LT$u32$GT$") {
                    "Vec<u32>"
                } else {
                    "unattributed"
                };
                ctx.violation(
                    &format!("memory-valgrind:{}", culprit),
                    &format!("valgrind memcheck reports memory errors while computing byte identities (exit {:?}, {}): {}", out.exit_code, v.crashed.clone().unwrap_or_default(), errs.join(" | ")),
                    json!({"kind": "child", "which": "all", "maxlen": 3, "long": false, "mode": "valgrind"}),
                );
            }
            for m in &v.mismatches {
                ctx.violation(&format!("bytes:{}", type_key(m)), m, json!({"kind": "child", "which": "all", "maxlen": 3, "long": false, "mode": "valgrind"}));
            }
        }
    } else {
        ctx.note("valgrind not found: memcheck pass skipped");
    }
    // ---- (4) thorough: miri on the stand-alone replica of the small sweep
    let mut miri_status = "not run".to_string();
    {
        let script = verif_root().join("miri").join("run.sh");
        if script.exists() {
            let out = run_cmd(script.to_str().unwrap(), &[], Duration::from_secs(1800), &[]);
            let ok = out.exit_code == Some(0) && out.stdout.contains("MIRI-DONE");
            miri_status = format!("ran: exit={:?} wall={:.0}s ok={}", out.exit_code, out.wall_s, ok);
            parts.push(json!({"mode": "cargo +nightly miri run (verif/miri)", "exit": out.exit_code, "wall_s": out.wall_s}));
            if out.stdout.contains("MIRI-UNAVAILABLE") {
                ctx.note("miri unavailable in this environment: pass skipped");
                miri_status = "unavailable".into();
            } else if !ok {
                let ub: Vec<&str> = out.stderr_tail.lines().filter(|l| l.contains("Undefined Behavior") || l.contains("error") || l.contains("sig.rs")).take(6).collect();
                ctx.violation(
                    "memory-miri",
                    &format!("miri reports undefined behaviour / failure in the byte-identity sweep: {}", ub.join(" | ")),
                    json!({"kind": "miri"}),
                );
            }
            for l in out.stdout.lines().filter(|l| l.starts_with("MISMATCH")) {
                ctx.violation(&format!("bytes:{}", type_key(l)), l, json!({"kind": "miri"}));
            }
        } else {
            ctx.note("verif/miri/run.sh missing: miri pass skipped");
        }
    }
    ctx.sample(json!({"Vec<u16>": [255, 65280, 65535], "get_sig": vec![0x00ffu16, 0xff00, 0xffff].get_sig()}));
    ctx.sample(json!({"String": "aé\u{10348}", "get_sig": "aé\u{10348}".to_string().get_sig()}));
    println!("C18 evaluations={} valgrind: {} miri: {}", evals, valgrind_status, miri_status);
    let coverage = json!({
        "evaluations": evals,
        "distinct_nontrivial": distinct,
        "rule": "every value of u8/u16/i16 (and of u32/i32 in the thorough tier; quick: all values with <=2 non-zero bytes and 1-2 bit patterns), a 2e5 pattern alphabet of u64, all strings of <=4 pieces over {empty,a,é,U+10348,NUL} and of <=3 pieces over 13 characters a normalising conversion would touch (U+FEFF, U+FFFE, zero-width and no-break spaces, line ends, tab, combining accent, upper case, U+FFFD, U+10FFFF) plus long ones, every Vec<u8|u16|u32> of length 0..5 (6) over a 5-value boundary alphabet plus lengths 255, 256, 257, 1000, 65535, 65536, 65537 and 1e6, each also rebuilt with spare capacity (larger allocation; re-filled after clear()); oracle = independent native-endian concatenation; vectors run in sub-processes (abort = observation), the small sweep is repeated under valgrind memcheck and under miri (which also checks allocation layouts on free); distinct = distinct values",
        "samples": [{"u16": "0xff00 -> [00, ff]"}, {"Vec<u16>": "[0x00ff, 0xff00, 0xffff]"}, {"Vec<u32>": "[]"}, {"String": "aé\u{10348}"}, {"sha_keys": "IndexMap<Vec<u32>,f64> in all 24 insertion orders"}],
        "exhaustive": false,
        "parts": parts,
        "valgrind": valgrind_status,
        "miri": miri_status,
    });
    ctx.finish(
        "exploration",
        coverage,
        vec![
            "memory safety is decided by valgrind memcheck / miri / glibc abort on the explored values only".into(),
            "u64, String and vector domains are covered on boundary alphabets, not completely".into(),
        ],
    )
}

pub fn replay(_ctx: &Ctx, case: &Value) -> Result<(bool, String), String> {
    match case["kind"].as_str() {
        Some("child") => {
            let which = case["which"].as_str().ok_or("which")?.to_string();
            let maxlen = case["maxlen"].as_u64().ok_or("maxlen")?.to_string();
            let long = if case["long"].as_bool().unwrap_or(false) { "1" } else { "0" };
            let out = if case["mode"].as_str() == Some("valgrind") {
                let exe = std::env::current_exe().unwrap();
                run_cmd(
                    "/usr/bin/valgrind",
                    &["--error-exitcode=42".into(), "--quiet".into(), "--leak-check=no".into(), exe.to_str().unwrap().into(), "--child".into(), "c18".into(), which, maxlen, long.into()],
                    Duration::from_secs(300),
                    &[],
                )
            } else {
                run_self(&["--child".into(), "c18".into(), which, maxlen, long.into()], Duration::from_secs(120), &[])
            };
            let v = judge_child(&out);
            let viol = v.crashed.is_some() || !v.mismatches.is_empty() || out.exit_code == Some(42);
            Ok((viol, format!("exit={:?} signal={:?} crashed={} mismatches={}", out.exit_code, out.signal, v.crashed.is_some(), v.mismatches.len())))
        }
        Some("miri") => {
            let script = verif_root().join("miri").join("run.sh");
            let out = run_cmd(script.to_str().unwrap(), &[], Duration::from_secs(1800), &[]);
            let ok = out.exit_code == Some(0) && out.stdout.contains("MIRI-DONE");
            Ok((!ok, format!("miri exit={:?}", out.exit_code)))
        }
        Some("scalar") | Some("sha") => Err("scalar cases are re-derived by running the check itself".into()),
        _ => Err("kind".into()),
    }
}
