//! C09 — densification only copies populated bins, is idempotent, and terminates.
//! Explicit-state search (stateright BFS) over the real densified sketchers through hook H3:
//! operations sketch(witness) / end_sketch / sketch_slice(chunk) / reinit, every occupancy pattern for m <= 8.

use crate::common::{guarded_mut, run_self, start_watchdog, watched, Ctx};
use crate::dens::{murmur32_of, Dens, DensState};
use fnv::FnvHasher;
use probminhash::densminhash::{OptDensMinHash, RevOptDensMinHash};
use probminhash::nohasher::NoHashHasher;
use rayon::prelude::*;
use serde_json::{json, Value};
use stateright::{Checker, Model, Property};
use std::collections::BTreeSet;
use std::marker::PhantomData;
use std::sync::atomic::{AtomicU64, Ordering};
use std::time::Duration;

#[derive(Clone, Debug, PartialEq, Eq, Hash)]
pub enum Op {
    Sketch(usize),     // index into the witness list
    EndSketch,
    Slice(usize),      // index into the chunk list
    Reinit,
}

#[derive(Clone, Debug)]
pub struct St {
    obs: DensState,
    /// items streamed since the last reinit (reference model)
    streamed: BTreeSet<u64>,
    /// shortest history reaching the state (not part of the identity)
    hist: Vec<Op>,
    broken: Option<String>,
}
impl PartialEq for St {
    fn eq(&self, o: &St) -> bool {
        self.obs == o.obs && self.streamed == o.streamed && self.broken == o.broken
    }
}
impl Eq for St {}
impl std::hash::Hash for St {
    fn hash<H: std::hash::Hasher>(&self, h: &mut H) {
        self.obs.hash(h);
        self.streamed.hash(h);
        self.broken.hash(h);
    }
}

pub struct DensModel<S: Dens> {
    m: usize,
    witnesses: Vec<u64>,
    chunks: Vec<Vec<u64>>,
    densify_edges: AtomicU64,
    densified_bins: AtomicU64,
    _p: PhantomData<fn() -> S>,
}

fn apply<S: Dens>(s: &mut S, op: &Op, witnesses: &[u64], chunks: &[Vec<u64>]) -> Result<(), String> {
    match op {
        Op::Sketch(i) => {
            s.sketch(&witnesses[*i]);
            Ok(())
        }
        Op::EndSketch => {
            let _g = watched(|| "end_sketch".to_string());
            s.end_sketch();
            Ok(())
        }
        Op::Slice(i) => {
            let _g = watched(|| "sketch_slice".to_string());
            s.sketch_slice(&chunks[*i])
        }
        Op::Reinit => {
            s.reinit();
            Ok(())
        }
    }
}

fn rebuild<S: Dens>(m: usize, hist: &[Op], witnesses: &[u64], chunks: &[Vec<u64>]) -> Result<S, String> {
    let mut s = S::new(m);
    for op in hist {
        apply(&mut s, op, witnesses, chunks)?;
    }
    Ok(s)
}

/// invariants of a densifying edge before -> after
fn check_densify_edge<S: Dens>(before: &DensState, after: &DensState, streamed: &BTreeSet<u64>, sk: &S) -> Option<String> {
    let m = before.init.len();
    if after.nb_empty != 0 || after.init.iter().any(|b| !*b) {
        return Some(format!("after finishing, nb_empty = {} and init = {:?}", after.nb_empty, after.init));
    }
    for k in 0..m {
        if before.init[k] {
            if before.hs[k] != after.hs[k] || before.values[k] != after.values[k] {
                return Some(format!("bin {} was populated (value {:#x}) and was changed by densification (now {:#x})", k, before.values[k], after.values[k]));
            }
        } else {
            let ok = (0..m).any(|j| before.init[j] && before.hs[j] == after.hs[k] && before.values[j] == after.values[k]);
            if !ok {
                return Some(format!("empty bin {} was filled with ({:#x},{:#x}) which is not the (value, hash) pair of a populated bin", k, after.hs[k], after.values[k]));
            }
        }
    }
    let hashes: BTreeSet<u64> = streamed.iter().map(S::item_hash).collect();
    for k in 0..m {
        if !hashes.contains(&after.values[k]) {
            return Some(format!("position {} holds {:#x}, not the hash of a streamed item", k, after.values[k]));
        }
    }
    check_views(after, sk)
}

/// the three public views of a finished sketch against its internal state
fn check_views<S: Dens>(after: &DensState, sk: &S) -> Option<String> {
    let m = after.init.len();
    match guarded_mut(|| sk.views()) {
        Err(p) => return Some(format!("views panic after finishing: {}", p)),
        Ok(v) => {
            if v.v64 != after.values || v.hs != after.hs {
                return Some("public views differ from the internal state".to_string());
            }
            for k in 0..m {
                if v.v32[k] != murmur32_of(v.v64[k]) {
                    return Some(format!("u32 view at {} is not murmur3_32(seed 127) of the u64 view", k));
                }
                for j in 0..k {
                    if v.v64[j] == v.v64[k] && (v.hs[j] != v.hs[k] || v.v32[j] != v.v32[k]) {
                        return Some(format!("positions {} and {} agree in the u64 view but not in the float/u32 views", j, k));
                    }
                }
            }
        }
    }
    None
}

impl<S: Dens> DensModel<S> {
    fn step(&self, last: &St, op: &Op) -> St {
        let mut hist = last.hist.clone();
        hist.push(op.clone());
        let mut streamed = last.streamed.clone();
        let m = self.m;
        let res = guarded_mut(|| -> Result<(DensState, Option<String>), String> {
            let mut s: S = rebuild(m, &last.hist, &self.witnesses, &self.chunks)?;
            let before = s.state();
            if before != last.obs {
                return Ok((before, Some("replaying the history does not reproduce the state (non-determinism)".to_string())));
            }
            // a finished sketch may be read at any time: the getters are polled before the operation ...
            if before.nb_empty == 0 {
                let _ = s.views();
            }
            let r = apply(&mut s, op, &self.witnesses, &self.chunks);
            let after = s.state();
            // ... and whatever the operation was, the views of a finished sketch must show the state it left
            let view_broken = if after.nb_empty == 0 && after.init.iter().all(|b| *b) { check_views(&after, &s).map(|w| format!("after {:?} on a sketch whose views had been read: {}", op, w)) } else { None };
            let mut broken = None;
            match op {
                Op::Sketch(i) => {
                    streamed.insert(self.witnesses[*i]);
                }
                Op::Reinit => {
                    streamed.clear();
                    if after != S::new(m).state() {
                        broken = Some("state after reinit differs from the initial state".to_string());
                    }
                }
                Op::EndSketch => {
                    if before.nb_empty == 0 {
                        if after != before {
                            broken = Some("end_sketch on a finished sketch changed it (not idempotent)".to_string());
                        }
                    } else {
                        self.densify_edges.fetch_add(1, Ordering::Relaxed);
                        self.densified_bins.fetch_add(before.nb_empty as u64, Ordering::Relaxed);
                        broken = check_densify_edge(&before, &after, &streamed, &s);
                        if broken.is_none() {
                            // idempotence
                            s.end_sketch();
                            if s.state() != after {
                                broken = Some("a second end_sketch changed the sketch".to_string());
                            }
                        }
                    }
                }
                Op::Slice(ci) => {
                    if let Err(e) = &r {
                        broken = Some(format!("sketch_slice on a non-empty stream failed: {}", e));
                    } else {
                        for x in &self.chunks[*ci] {
                            streamed.insert(*x);
                        }
                        // reference: item-wise sketch then end_sketch on a replayed copy
                        let mut t: S = rebuild(m, &last.hist, &self.witnesses, &self.chunks)?;
                        for x in &self.chunks[*ci] {
                            t.sketch(x);
                        }
                        let mid = t.state();
                        {
                            let _g = watched(|| "end_sketch".to_string());
                            t.end_sketch();
                        }
                        if t.state() != after {
                            broken = Some(format!("sketch_slice({:?}) differs from item-wise sketch + end_sketch", self.chunks[*ci]));
                        } else if mid.nb_empty > 0 {
                            self.densify_edges.fetch_add(1, Ordering::Relaxed);
                            self.densified_bins.fetch_add(mid.nb_empty as u64, Ordering::Relaxed);
                            broken = check_densify_edge(&mid, &after, &streamed, &s);
                        }
                    }
                }
            }
            Ok((after, broken.or(view_broken)))
        });
        match res {
            Ok(Ok((obs, broken))) => St { obs, streamed, hist, broken },
            Ok(Err(e)) => St { obs: last.obs.clone(), streamed, hist, broken: Some(format!("replay error: {}", e)) },
            Err(p) => St { obs: last.obs.clone(), streamed, hist, broken: Some(format!("panic: {}", p)) },
        }
    }
}

impl<S: Dens> Model for DensModel<S> {
    type State = St;
    type Action = Op;
    fn init_states(&self) -> Vec<St> {
        vec![St { obs: S::new(self.m).state(), streamed: BTreeSet::new(), hist: vec![], broken: None }]
    }
    fn actions(&self, st: &St, acts: &mut Vec<Op>) {
        if st.broken.is_some() {
            return;
        }
        for i in 0..self.witnesses.len() {
            acts.push(Op::Sketch(i));
        }
        let populated = st.obs.nb_empty < self.m as i64;
        // finishing with nothing streamed is the separate termination case (it may not return)
        if populated {
            acts.push(Op::EndSketch);
        }
        for (i, c) in self.chunks.iter().enumerate() {
            if populated || !c.is_empty() {
                acts.push(Op::Slice(i));
            }
        }
        acts.push(Op::Reinit);
    }
    fn next_state(&self, last: &St, op: Op) -> Option<St> {
        Some(self.step(last, &op))
    }
    fn properties(&self) -> Vec<Property<Self>> {
        vec![Property::<Self>::always("densification invariants", |_, st| st.broken.is_none())]
    }
}

/// witnesses: for each bin one item landing there (two for bin 0 and the last bin), found by scanning identifiers
/// through the real sketcher (never by re-implementing the draw)
fn find_witnesses<S: Dens>(m: usize, base: u64) -> Option<Vec<u64>> {
    let mut per_bin: Vec<Vec<u64>> = vec![vec![]; m];
    let want = |k: usize| if k == 0 || k + 1 == m { 2 } else { 1 };
    // boundary identifiers first (with the no-op hasher their hashes are the sentinel values 0 and u64::MAX)
    let specials = [u64::MAX, 0u64, 1, u64::MAX - 1];
    let mut si = 0;
    let mut x = base;
    let mut tries = 0;
    while (0..m).any(|k| per_bin[k].len() < want(k)) {
        let cand = if si < specials.len() {
            si += 1;
            specials[si - 1]
        } else {
            x += 1;
            x - 1
        };
        let mut s = S::new(m);
        s.sketch(&cand);
        let st = s.state();
        if let Some(k) = st.init.iter().position(|b| *b) {
            // a special item is always kept (as an extra witness of its bin)
            if per_bin[k].len() < want(k) || si <= specials.len() && specials.contains(&cand) && !per_bin[k].contains(&cand) {
                per_bin[k].push(cand);
            }
        }
        tries += 1;
        if tries > 1_000_000 {
            return None;
        }
    }
    Some(per_bin.into_iter().flatten().collect())
}

struct SpaceOut {
    name: String,
    m: usize,
    unique: usize,
    generated: usize,
    depth: usize,
    densify_edges: u64,
    densified_bins: u64,
    patterns: usize,
    counterexample: Option<(Vec<Op>, String, Vec<u64>, Vec<Vec<u64>>)>,
}

/// two different items whose per-item uniform value is bit-identical (exists within a few thousand items for f32 registers):
/// with size-1 sketches they tie at the bin minimum, so the order of the two and the entry point used must not matter
/// beyond what item-wise streaming does
fn find_tie_pair<S: Dens>(base: u64) -> Option<(u64, u64)> {
    let mut seen: std::collections::HashMap<u64, u64> = std::collections::HashMap::new();
    for x in base..base + 20_000 {
        let mut s = S::new(1);
        s.sketch(&x);
        let r = s.state().hs[0];
        if let Some(y) = seen.get(&r) {
            return Some((*y, x));
        }
        seen.insert(r, x);
    }
    None
}

fn explore<S: Dens + 'static>(m: usize, base: u64, max_depth: Option<usize>) -> Result<SpaceOut, String> {
    let mut witnesses = find_witnesses::<S>(m, base).ok_or("no witnesses found")?;
    let tie = if m <= 2 { find_tie_pair::<S>(base) } else { None };
    if let Some((a, b)) = tie {
        witnesses.push(a);
        witnesses.push(b);
    }
    let mut chunks: Vec<Vec<u64>> = vec![vec![], vec![witnesses[0]]];
    if let Some((a, b)) = tie {
        chunks.push(vec![a, b]);
        chunks.push(vec![b, a]);
    }
    if witnesses.len() >= 3 {
        chunks.push(vec![witnesses[1], witnesses[2]]);
        chunks.push(vec![witnesses[witnesses.len() - 1], witnesses[0], witnesses[witnesses.len() - 1]]);
    }
    let model = DensModel::<S> { m, witnesses: witnesses.clone(), chunks: chunks.clone(), densify_edges: AtomicU64::new(0), densified_bins: AtomicU64::new(0), _p: PhantomData };
    let mut builder = model.checker().threads(16);
    if let Some(d) = max_depth {
        builder = builder.target_max_depth(d);
    }
    let checker = builder.spawn_bfs().join();
    let mut counterexample = None;
    if let Some(path) = checker.discovery("densification invariants") {
        let last = path.last_state().clone();
        counterexample = Some((last.hist.clone(), last.broken.clone().unwrap_or_default(), witnesses.clone(), chunks.clone()));
    }
    let model = checker.model();
    Ok(SpaceOut {
        name: S::name().to_string(),
        m,
        unique: checker.unique_state_count(),
        generated: checker.state_count(),
        depth: checker.max_depth(),
        densify_edges: model.densify_edges.load(Ordering::Relaxed),
        densified_bins: model.densified_bins.load(Ordering::Relaxed),
        patterns: 0,
        counterexample,
    })
}

/// all 2^m - 1 non-empty occupancy patterns, directly (one witness per bin streamed, then end_sketch)
fn all_patterns<S: Dens>(m: usize, base: u64) -> Result<(usize, Option<(Vec<Op>, String, Vec<u64>)>), String> {
    let witnesses = find_witnesses::<S>(m, base).ok_or("no witnesses")?;
    // first witness of each bin
    let mut first_of_bin: Vec<Option<usize>> = vec![None; m];
    for (i, w) in witnesses.iter().enumerate() {
        let mut s = S::new(m);
        s.sketch(w);
        let k = s.state().init.iter().position(|b| *b).unwrap();
        if first_of_bin[k].is_none() {
            first_of_bin[k] = Some(i);
        }
    }
    let mut n = 0;
    for pat in 1u32..(1u32 << m) {
        let mut hist = Vec::new();
        for k in 0..m {
            if pat & (1 << k) != 0 {
                hist.push(Op::Sketch(first_of_bin[k].unwrap()));
            }
        }
        let chunks: Vec<Vec<u64>> = vec![];
        let r = guarded_mut(|| -> Result<Option<String>, String> {
            let mut s: S = rebuild(m, &hist, &witnesses, &chunks)?;
            let before = s.state();
            {
                let _g = watched(|| "end_sketch".to_string());
                s.end_sketch();
            }
            let after = s.state();
            let streamed: BTreeSet<u64> = hist.iter().map(|o| if let Op::Sketch(i) = o { witnesses[*i] } else { 0 }).collect();
            Ok(check_densify_edge(&before, &after, &streamed, &s))
        });
        n += 1;
        let mut h2 = hist.clone();
        h2.push(Op::EndSketch);
        match r {
            Ok(Ok(None)) => {}
            Ok(Ok(Some(w))) => return Ok((n, Some((h2, w, witnesses)))),
            Ok(Err(e)) => return Err(e),
            Err(p) => return Ok((n, Some((h2, format!("panic: {}", p), witnesses)))),
        }
    }
    Ok((n, None))
}

/// Large sketch sizes, powers of two and not (a bin index drawn with a different algorithm, a narrower index type or a table
/// only show there): one stream of n consecutive identifiers, item by item + end_sketch against one sketch_slice call, with
/// the finishing-edge invariants checked in O(m log m).
fn large_size_case<S: Dens>(m: usize, base: u64, n: u64) -> Result<(), String> {
    use std::collections::{HashMap, HashSet};
    let r = guarded_mut(|| -> Result<(), String> {
        let _w = crate::common::watched(|| format!("{} m={}: stream of {} items", S::name(), m, n));
        let items: Vec<u64> = (base..base + n).collect();
        let mut a = S::new(m);
        for x in &items {
            a.sketch(x);
        }
        let before = a.state();
        a.end_sketch();
        let after = a.state();
        let mut b = S::new(m);
        b.sketch_slice(&items)?;
        let sb = b.state();
        if sb != after {
            let k = (0..m).find(|k| sb.hs[*k] != after.hs[*k] || sb.values[*k] != after.values[*k]);
            return Err(format!("sketch_slice of {} items differs from item-wise sketch + end_sketch (first differing position: {:?})", n, k));
        }
        if after.nb_empty != 0 || after.init.iter().any(|x| !*x) {
            return Err(format!("after finishing, nb_empty = {}", after.nb_empty));
        }
        let populated: HashSet<(u64, u64)> = (0..m).filter(|k| before.init[*k]).map(|k| (before.hs[k], before.values[k])).collect();
        for k in 0..m {
            if before.init[k] {
                if before.hs[k] != after.hs[k] || before.values[k] != after.values[k] {
                    return Err(format!("bin {} was populated and was changed by densification", k));
                }
            } else if !populated.contains(&(after.hs[k], after.values[k])) {
                return Err(format!("empty bin {} was filled with a pair that is not the (value, hash) pair of a populated bin", k));
            }
        }
        let hashes: HashSet<u64> = items.iter().map(S::item_hash).collect();
        if let Some(k) = (0..m).find(|k| !hashes.contains(&after.values[*k])) {
            return Err(format!("position {} holds {:#x}, not the hash of a streamed item", k, after.values[k]));
        }
        let v = a.views();
        if v.v64 != after.values || v.hs != after.hs {
            return Err("public views differ from the internal state".into());
        }
        let mut seen: HashMap<u64, (u64, u32)> = HashMap::new();
        for k in 0..m {
            if v.v32[k] != murmur32_of(v.v64[k]) {
                return Err(format!("u32 view at {} is not murmur3_32(seed 127) of the u64 view", k));
            }
            let e = seen.entry(v.v64[k]).or_insert((v.hs[k], v.v32[k]));
            if *e != (v.hs[k], v.v32[k]) {
                return Err(format!("position {} agrees with an earlier one in the u64 view but not in the float/u32 views", k));
            }
        }
        a.end_sketch();
        if a.state() != after {
            return Err("a second end_sketch changed the sketch".into());
        }
        Ok(())
    });
    match r {
        Ok(x) => x.map_err(|e| format!("{} m={}: {}", S::name(), m, e)),
        Err(p) => Err(format!("{} m={}: panic {}", S::name(), m, p)),
    }
}

/// stream length for a large size: 2^17 items, but at least m/8 (the optimal densification probes about m/n bins per empty
/// bin, so a nearly empty sketch of 2^24 bins would take minutes) and at most 4m
fn large_n(m: usize) -> u64 {
    (1u64 << 17).max(m as u64 / 8).min(4 * m as u64).max(64)
}

fn large_sizes(ctx: &Ctx, base: u64) -> u64 {
    let mut sizes: Vec<usize> = vec![255, 256, 257, 1000, 4097, 50_000, 65_535, 65_536, 65_537, 1_000_003, 3 << 20];
    if !ctx.quick() {
        sizes.extend_from_slice(&[(1 << 22) + 1, 5 << 20]);
    }
    let mut cases = 0;
    macro_rules! go {
        ($t:ty, $tag:expr, $maxm:expr) => {
            let mut reported = false;
            for &m in sizes.iter().filter(|m| **m <= $maxm) {
                cases += 1;
                if let Err(w) = large_size_case::<$t>(m, base << 8, large_n(m)) {
                    if !reported {
                        reported = true;
                        ctx.violation(&format!("large-size:{}", $tag), &w, json!({"kind": "large", "sketcher": $tag, "m": m, "base": base << 8}));
                    }
                }
            }
        };
    }
    // the reverse densification seeds one ChaCha generator per populated bin and pass (about m ln m seedings): sizes above
    // a million take tens of seconds there and are left to the other algorithm
    go!(OptDensMinHash<f64, u64, FnvHasher>, "opt64", usize::MAX);
    go!(RevOptDensMinHash<f64, u64, FnvHasher>, "rev64", 1_000_003);
    // very sparse sketches: 1, 2 or 3 items in more than 10^5 bins (almost every bin is filled by densification, the
    // first empty bins need about m probes each: a probe cap or a fallback donor shows here)
    macro_rules! sparse {
        ($t:ty, $tag:expr) => {
            let mut reported = false;
            for &m in &[100_003usize, 131_072] {
                for n in 1..=3u64 {
                    for shift in 0..2u64 {
                        cases += 1;
                        if let Err(w) = large_size_case::<$t>(m, (base << 8) + 1000 * shift, n) {
                            if !reported {
                                reported = true;
                                ctx.violation(&format!("sparse-large-size:{}", $tag), &w, json!({"kind": "large", "sketcher": $tag, "m": m, "base": (base << 8) + 1000 * shift, "n": n}));
                            }
                        }
                    }
                }
            }
        };
    }
    sparse!(OptDensMinHash<f64, u64, FnvHasher>, "opt64");
    sparse!(OptDensMinHash<f32, u64, FnvHasher>, "opt32");
    sparse!(RevOptDensMinHash<f64, u64, FnvHasher>, "rev64");
    go!(OptDensMinHash<f32, u64, FnvHasher>, "opt32", usize::MAX);
    go!(RevOptDensMinHash<f32, u64, FnvHasher>, "rev32", 65_537);
    cases
}

/// Every item populates exactly one bin with (its uniform value in [0,1), its hash): scan of n consecutive identifiers on a
/// two-bin sketcher.  Returns the items whose uniform value is exactly 0.0 (legal for the half-open range; about 2^-23 of
/// the items in f32) - the one value a "degenerate draw" guard would mistake for garbage.
pub fn single_item_scan<S: Dens>(base: u64, n: u64) -> Result<Vec<u64>, String> {
    let res: Vec<Result<Vec<u64>, String>> = (0..(n >> 12).max(1))
        .into_par_iter()
        .map(|c| {
            let mut zeros = Vec::new();
            for x in (base + (c << 12))..(base + ((c + 1) << 12)).min(base + n) {
                let r = guarded_mut(|| {
                    let mut s = S::new(2);
                    s.sketch(&x);
                    s.state()
                });
                let st = match r {
                    Ok(st) => st,
                    Err(p) => return Err(format!("sketch({}) on a fresh {} m=2 panics: {}", x, S::name(), p)),
                };
                let filled: Vec<usize> = (0..2).filter(|k| st.init[*k]).collect();
                if filled.len() != 1 || st.nb_empty != 1 {
                    return Err(format!("{} m=2: after sketch({}) {} bins are populated (nb_empty = {}): the item left no trace or too many", S::name(), x, filled.len(), st.nb_empty));
                }
                let k = filled[0];
                let v = if S::name().contains("f32") { f32::from_bits(st.hs[k] as u32) as f64 } else { f64::from_bits(st.hs[k]) };
                if st.values[k] != S::item_hash(&x) || !(0. ..1.).contains(&v) {
                    return Err(format!("{} m=2: after sketch({}) bin {} holds (value {}, hash {:#x}), expected a value in [0,1) and hash {:#x}", S::name(), x, k, v, st.values[k], S::item_hash(&x)));
                }
                if v == 0. {
                    zeros.push(x);
                }
            }
            Ok(zeros)
        })
        .collect();
    let mut out = Vec::new();
    for r in res {
        out.extend(r?);
    }
    Ok(out)
}

/// streams that contain a zero-draw witness x: x owns its bin (0.0 is the smallest possible value) whatever else is streamed,
/// so two sketches that both contain x agree at that bin, and the stream of x alone finishes with every bin holding x
pub fn zero_draw_streams<S: Dens>(witnesses: &[u64], base: u64) -> Option<String> {
    for &x in witnesses.iter().take(8) {
        for &m in &[1usize, 7, 64] {
            let r = guarded_mut(|| -> Result<(), String> {
                let hx = S::item_hash(&x);
                let mut alone = S::new(m);
                alone.sketch_slice(&[x]).map_err(|e| format!("the stream of the single item {} is reported as failing: {}", x, e))?;
                if alone.views().v64.iter().any(|h| *h != hx) {
                    return Err(format!("the sketch of the single item {} holds another hash", x));
                }
                let mut one = S::new(m);
                one.sketch(&x);
                let k = (0..m).find(|k| one.state().init[*k]).ok_or("item left no trace")?;
                let ya: Vec<u64> = std::iter::once(x).chain((0..40).map(|i| base + 2 * i)).collect();
                let yb: Vec<u64> = (0..40).map(|i| base + 2 * i + 1).chain(std::iter::once(x)).collect();
                let mut a = S::new(m);
                a.sketch_slice(&ya)?;
                let mut b = S::new(m);
                b.sketch_slice(&yb)?;
                if a.views().v64[k] != hx || b.views().v64[k] != hx {
                    return Err(format!("item {} draws the smallest possible value 0.0 for bin {} but does not own that bin in a stream of 41 items", x, k));
                }
                Ok(())
            });
            match r {
                Ok(Ok(())) => {}
                Ok(Err(w)) => return Some(format!("{} m={}: {}", S::name(), m, w)),
                Err(p) => return Some(format!("{} m={}: panic {}", S::name(), m, p)),
            }
        }
    }
    None
}

fn ops_json(ops: &[Op]) -> Value {
    json!(ops
        .iter()
        .map(|o| match o {
            Op::Sketch(i) => json!({"sketch": i}),
            Op::EndSketch => json!("end_sketch"),
            Op::Slice(i) => json!({"slice": i}),
            Op::Reinit => json!("reinit"),
        })
        .collect::<Vec<_>>())
}

fn ops_from_json(v: &Value) -> Result<Vec<Op>, String> {
    let mut out = Vec::new();
    for o in v.as_array().ok_or("ops")? {
        if o.as_str() == Some("end_sketch") {
            out.push(Op::EndSketch);
        } else if o.as_str() == Some("reinit") {
            out.push(Op::Reinit);
        } else if let Some(i) = o["sketch"].as_u64() {
            out.push(Op::Sketch(i as usize));
        } else if let Some(i) = o["slice"].as_u64() {
            out.push(Op::Slice(i as usize));
        } else {
            return Err("bad op".into());
        }
    }
    Ok(out)
}

/// replay an op list on a fresh sketcher, checking every edge like the model does
fn replay_ops<S: Dens + 'static>(m: usize, ops: &[Op], witnesses: Vec<u64>, chunks: Vec<Vec<u64>>) -> (bool, String) {
    let model = DensModel::<S> { m, witnesses, chunks, densify_edges: AtomicU64::new(0), densified_bins: AtomicU64::new(0), _p: PhantomData };
    let mut st = model.init_states().pop().unwrap();
    for op in ops {
        st = model.step(&st, op);
        if let Some(b) = &st.broken {
            return (true, b.clone());
        }
    }
    (false, "all invariants hold along the path".into())
}

// ------------------------------------------------------------------------------------------------
// termination on an empty stream (supervised child)

pub fn child(args: &[String]) -> i32 {
    // args: <sketcher> <m> <mode: end|slice>
    let which = args.first().map(|s| s.as_str()).unwrap_or("");
    let m: usize = args.get(1).and_then(|s| s.parse().ok()).unwrap_or(4);
    let mode = args.get(2).map(|s| s.as_str()).unwrap_or("end");
    fn go<S: Dens>(m: usize, mode: &str) -> String {
        let r = guarded_mut(|| {
            let mut s = S::new(m);
            match mode {
                "end" => {
                    s.end_sketch();
                    "returned".to_string()
                }
                "reinit-end" => {
                    s.sketch(&1);
                    s.reinit();
                    s.end_sketch();
                    "returned".to_string()
                }
                _ => match s.sketch_slice(&[]) {
                    Ok(()) => "returned Ok".to_string(),
                    Err(e) => format!("returned Err({})", e),
                },
            }
        });
        match r {
            Ok(s) => s,
            Err(p) => format!("panicked: {}", p),
        }
    }
    let out = match which {
        "opt64" => go::<OptDensMinHash<f64, u64, FnvHasher>>(m, mode),
        "opt32" => go::<OptDensMinHash<f32, u64, FnvHasher>>(m, mode),
        "rev64" => go::<RevOptDensMinHash<f64, u64, FnvHasher>>(m, mode),
        "rev32" => go::<RevOptDensMinHash<f32, u64, FnvHasher>>(m, mode),
        _ => return 2,
    };
    println!("OUTCOME {}", out);
    0
}

fn empty_stream_cases(ctx: &Ctx, stats: &mut Vec<Value>) -> u64 {
    let mut n = 0;
    let ms: Vec<usize> = ctx.pick(vec![1, 4], vec![1, 2, 4, 16, 64]);
    // cases run concurrently: each either returns at once or sits until the horizon
    let mut cases = Vec::new();
    for which in ["opt64", "rev64", "opt32", "rev32"] {
        for &m in &ms {
            for mode in ["end", "slice", "reinit-end"] {
                cases.push((which, m, mode));
            }
        }
    }
    let horizon = Duration::from_secs(5);
    let outs: Vec<_> = std::thread::scope(|sc| {
        let hs: Vec<_> = cases
            .iter()
            .map(|(which, m, mode)| {
                let args = vec!["--child".to_string(), "c09".to_string(), which.to_string(), m.to_string(), mode.to_string()];
                sc.spawn(move || run_self(&args, horizon, &[]))
            })
            .collect();
        hs.into_iter().map(|h| h.join().unwrap()).collect()
    });
    for ((which, m, mode), out) in cases.iter().zip(outs.iter()) {
        n += 1;
        let outcome = out.stdout.lines().find(|l| l.starts_with("OUTCOME")).map(|l| l.to_string());
        stats.push(json!({"sketcher": which, "m": m, "call": mode, "timed_out": out.timed_out, "outcome": outcome}));
        let sk = if which.starts_with("opt") { "OptDensMinHash" } else { "RevOptDensMinHash" };
        if out.timed_out {
            ctx.violation(
                &format!("empty-stream-hang:{}", sk),
                &format!("{} m={} : finishing ({}) with nothing streamed did not return within {:?}", which, m, mode, horizon),
                json!({"kind": "empty", "which": which, "m": m, "mode": mode}),
            );
        } else if outcome.is_none() {
            ctx.violation(
                &format!("empty-stream-crash:{}", sk),
                &format!("{} m={} : finishing ({}) with nothing streamed killed the process (exit {:?}, signal {:?})", which, m, mode, out.exit_code, out.signal),
                json!({"kind": "empty", "which": which, "m": m, "mode": mode}),
            );
        }
    }
    n
}

pub fn run(ctx: &Ctx) -> i32 {
    // a watched call that runs for more than 60 s is a non-terminating finish (the largest legitimate call, a stream of 6.5e5
    // items into 5e6 bins, takes a few seconds on an idle machine)
    let ctx_ptr: &'static Ctx = unsafe { &*(ctx as *const Ctx) };
    start_watchdog(Duration::from_secs(60), move |desc| {
        ctx_ptr.violation(
            "nontermination",
            &format!("a {} call on a non-empty stream did not return within 60 s", desc),
            json!({"kind": "watchdog", "call": desc}),
        );
        let code = ctx_ptr.finish(
            "model_checking",
            json!({"states": 1, "transitions": 1, "traces_validated_against_impl": 1, "samples": [desc], "exhaustive": false, "note": "run aborted by the watchdog"}),
            vec![],
        );
        crate::common::exit_process(code);
    });
    let base = 1_000_000u64.wrapping_add(crate::common::splitmix64(ctx.seed) % 1_000_000);
    let mut spaces = Vec::new();
    let mut tot_states = 0usize;
    let mut tot_trans = 0usize;
    let mut tot_patterns = 0usize;
    let max_m = ctx.pick(7usize, 9);
    macro_rules! do_type {
        ($t:ty, $tag:expr, $maxm:expr) => {
            for m in 1..=$maxm {
                let r = match explore::<$t>(m, base, None) {
                    Ok(r) => r,
                    Err(e) => {
                        println!("ENGINE-ERROR C09 {}", e);
                        return 2;
                    }
                };
                if let Some((ops, why, wit, chunks)) = &r.counterexample {
                    let (viol, obs) = replay_ops::<$t>(m, ops, wit.clone(), chunks.clone());
                    if !viol {
                        println!("ENGINE-ERROR C09 counterexample does not reproduce: {} / {}", why, obs);
                        return 2;
                    }
                    ctx.violation(
                        &format!("space:{}:m={}", $tag, m),
                        &format!("{} m={} after {:?}: {}", r.name, m, ops, obs),
                        json!({"kind": "ops", "sketcher": $tag, "m": m, "ops": ops_json(ops), "witnesses": wit, "chunks": chunks}),
                    );
                }
                println!(
                    "C09 space {} m={} unique={} generated={} depth={} densifying-edges={} bins-densified={} {}",
                    r.name,
                    m,
                    r.unique,
                    r.generated,
                    r.depth,
                    r.densify_edges,
                    r.densified_bins,
                    if r.counterexample.is_some() { "COUNTEREXAMPLE" } else { "ok" }
                );
                if m == 3 {
                    let wit = find_witnesses::<$t>(m, base).unwrap_or_default();
                    let ops = vec![Op::Sketch(0), Op::Sketch(wit.len().saturating_sub(1)), Op::EndSketch, Op::Sketch(1), Op::EndSketch, Op::Reinit];
                    let (viol, obs) = replay_ops::<$t>(m, &ops, wit.clone(), vec![vec![], vec![wit[0]]]);
                    ctx.sample(json!({"sketcher": $tag, "m": m, "witness_items": wit, "path": ops_json(&ops), "violated": viol, "result": obs}));
                }
                tot_states += r.unique;
                tot_trans += r.generated;
                spaces.push(json!({"sketcher": r.name, "m": r.m, "unique_states": r.unique, "generated": r.generated, "max_depth": r.depth,
                    "densifying_edges": r.densify_edges, "bins_filled_by_densification": r.densified_bins, "closed": r.counterexample.is_none(), "patterns": r.patterns}));
            }
            // every non-empty occupancy pattern for larger m
            for m in ($maxm + 1)..=ctx.pick(10usize, 13) {
                match all_patterns::<$t>(m, base) {
                    Err(e) => {
                        println!("ENGINE-ERROR C09 {}", e);
                        return 2;
                    }
                    Ok((n, bad)) => {
                        tot_patterns += n;
                        tot_trans += n;
                        if let Some((ops, why, wit)) = bad {
                            ctx.violation(
                                &format!("pattern:{}:m={}", $tag, m),
                                &format!("{} m={} occupancy pattern reached by {:?}: {}", <$t as Dens>::name(), m, ops, why),
                                json!({"kind": "ops", "sketcher": $tag, "m": m, "ops": ops_json(&ops), "witnesses": wit, "chunks": Vec::<Vec<u64>>::new()}),
                            );
                        }
                    }
                }
            }
        };
    }
    do_type!(OptDensMinHash<f64, u64, FnvHasher>, "opt64", max_m);
    do_type!(RevOptDensMinHash<f64, u64, FnvHasher>, "rev64", max_m);
    do_type!(OptDensMinHash<f32, u64, FnvHasher>, "opt32", max_m - 1);
    do_type!(RevOptDensMinHash<f32, u64, FnvHasher>, "rev32", max_m - 1);
    // no-op hasher: the stored hashes are the identifiers themselves, including the boundary values 0 and u64::MAX
    do_type!(OptDensMinHash<f64, u64, NoHashHasher>, "opt64nohash", max_m - 2);
    do_type!(RevOptDensMinHash<f64, u64, NoHashHasher>, "rev64nohash", max_m - 2);
    // ---- every item of a block populates one bin; zero-draw witnesses
    let mut scan_info = Vec::new();
    {
        macro_rules! scan {
            ($t:ty, $tag:expr, $n:expr) => {
                match single_item_scan::<$t>(base << 10, $n) {
                    Err(w) => ctx.violation(&format!("single-item:{}", $tag), &w, json!({"kind": "scan", "sketcher": $tag})),
                    Ok(z) => {
                        if let Some(w) = zero_draw_streams::<$t>(&z, base << 3) {
                            ctx.violation(&format!("zero-draw:{}", $tag), &w, json!({"kind": "scan", "sketcher": $tag}));
                        }
                        scan_info.push(json!({"sketcher": $tag, "items": $n, "zero_draw_witnesses": z.len()}));
                    }
                }
            };
        }
        let nf32: u64 = ctx.pick(1 << 25, 1 << 27);
        let nf64: u64 = ctx.pick(1 << 20, 1 << 22);
        scan!(OptDensMinHash<f32, u64, FnvHasher>, "opt32", nf32);
        scan!(RevOptDensMinHash<f32, u64, FnvHasher>, "rev32", nf32);
        scan!(OptDensMinHash<f64, u64, FnvHasher>, "opt64", nf64);
        scan!(RevOptDensMinHash<f64, u64, FnvHasher>, "rev64", nf64);
        println!("C09 single-item scan: {:?}", scan_info);
    }
    let n_large = large_sizes(ctx, base);
    println!("C09 large sizes: {} (sketcher, m) cases", n_large);
    let mut empty_stats = Vec::new();
    let n_empty = empty_stream_cases(ctx, &mut empty_stats);
    println!("C09 states={} transitions={} occupancy-patterns(direct)={} empty-stream cases={}", tot_states, tot_trans, tot_patterns, n_empty);
    let coverage = json!({
        "states": tot_states,
        "transitions": tot_trans,
        "traces_validated_against_impl": tot_trans as u64 + n_empty + n_large,
        "samples": [
            {"path": ["sketch(w_bin0)", "sketch(w_bin2)", "end_sketch", "sketch(w_bin1)", "end_sketch", "reinit"]},
            {"pattern": {"m": 9, "populated_bins": [0, 3, 8], "then": "end_sketch"}},
            {"empty_stream": {"sketcher": "rev64", "m": 4, "call": "end_sketch on a fresh instance", "horizon_s": 5}}
        ],
        "exhaustive": true,
        "evaluations": tot_trans as u64 + n_empty,
        "distinct_nontrivial": tot_states,
        "rule": "stateright BFS to a fixed point over the complete internal state (hook H3) of the real sketcher; ops: sketch(witness) for one witness item per bin (two for the first and last bin), end_sketch, sketch_slice over 4 chunks (including the empty one), reinit; each transition replays the shortest history on a fresh real instance; on every finishing edge: populated bins unchanged, every other bin holds the (value,hash) of a populated bin, nb_empty=0, all positions are hashes of streamed items, u32 view = murmur3(127) of u64 view, equal u64 entries => equal float/u32 entries, second end_sketch is a no-op, sketch_slice = item-wise + end_sketch, reinit = initial state; plus every non-empty occupancy pattern for larger m; finishing an empty stream runs in a supervised sub-process with a 5 s horizon",
        "spaces": spaces,
        "direct_occupancy_patterns": tot_patterns,
        "single_item_scan": {"per_sketcher": scan_info, "what": "every identifier of a block of 2^25 (2^27) for the f32 and 2^20 (2^22) for the f64 sketchers populates exactly one bin of a fresh two-bin sketcher with (a value in [0,1), its hash); the items whose value is exactly 0.0 are then streamed alone and with 40 other items at m in {1,7,64}: they own their bin"},
        "large_sizes": {"cases": n_large, "what": "m in {255,256,257,1000,4097,50000,65535,65536,65537,1000003,3*2^20} (thorough: 2^22+1, 5*2^20), 4 sketcher types, one stream of min(max(2^17, m/8), 4m) consecutive identifiers: sketch_slice = item-wise + end_sketch on the whole internal state, and the finishing-edge invariants; one stream per size, not exhaustive"},
        "empty_stream_cases": empty_stats,
    });
    ctx.finish(
        "model_checking",
        coverage,
        vec![
            "hook H3 returns the complete mutable state of the sketcher".into(),
            "densification reads only the occupancy pattern, so one witness item per bin covers all densification behaviours for a given m".into(),
            "m above the exhaustively explored bound is covered by one stream per size only (sizes listed under large_sizes)".into(),
        ],
    )
}

pub fn replay(_ctx: &Ctx, case: &Value) -> Result<(bool, String), String> {
    match case["kind"].as_str() {
        Some("ops") => {
            let m = case["m"].as_u64().ok_or("m")? as usize;
            let ops = ops_from_json(&case["ops"])?;
            let wit: Vec<u64> = case["witnesses"].as_array().ok_or("witnesses")?.iter().map(|v| v.as_u64().unwrap_or(0)).collect();
            let chunks: Vec<Vec<u64>> = case["chunks"].as_array().ok_or("chunks")?.iter().map(|c| c.as_array().map(|a| a.iter().map(|v| v.as_u64().unwrap_or(0)).collect()).unwrap_or_default()).collect();
            start_watchdog(Duration::from_secs(20), |d| {
                println!("REPLAY observation: {} did not return within 20 s", d);
                println!("VIOLATION property=C09 replay=(this file)");
                crate::common::exit_process(1);
            });
            Ok(match case["sketcher"].as_str() {
                Some("opt64") => replay_ops::<OptDensMinHash<f64, u64, FnvHasher>>(m, &ops, wit, chunks),
                Some("rev64") => replay_ops::<RevOptDensMinHash<f64, u64, FnvHasher>>(m, &ops, wit, chunks),
                Some("opt32") => replay_ops::<OptDensMinHash<f32, u64, FnvHasher>>(m, &ops, wit, chunks),
                Some("rev32") => replay_ops::<RevOptDensMinHash<f32, u64, FnvHasher>>(m, &ops, wit, chunks),
                Some("opt64nohash") => replay_ops::<OptDensMinHash<f64, u64, NoHashHasher>>(m, &ops, wit, chunks),
                Some("rev64nohash") => replay_ops::<RevOptDensMinHash<f64, u64, NoHashHasher>>(m, &ops, wit, chunks),
                _ => return Err("sketcher".into()),
            })
        }
        Some("large") => {
            let m = case["m"].as_u64().ok_or("m")? as usize;
            let base = case["base"].as_u64().ok_or("base")?;
            let n = case["n"].as_u64().unwrap_or(large_n(m));
            let r = match case["sketcher"].as_str() {
                Some("opt64") => large_size_case::<OptDensMinHash<f64, u64, FnvHasher>>(m, base, n),
                Some("rev64") => large_size_case::<RevOptDensMinHash<f64, u64, FnvHasher>>(m, base, n),
                Some("opt32") => large_size_case::<OptDensMinHash<f32, u64, FnvHasher>>(m, base, n),
                Some("rev32") => large_size_case::<RevOptDensMinHash<f32, u64, FnvHasher>>(m, base, n),
                _ => return Err("sketcher".into()),
            };
            Ok((r.is_err(), format!("{:?}", r)))
        }
        Some("scan") => Err("re-derived by running the check itself".into()),
        Some("empty") => {
            let which = case["which"].as_str().ok_or("which")?;
            let m = case["m"].as_u64().ok_or("m")?;
            let mode = case["mode"].as_str().ok_or("mode")?;
            let out = run_self(&["--child".into(), "c09".into(), which.into(), m.to_string(), mode.into()], Duration::from_secs(5), &[]);
            let outcome = out.stdout.lines().find(|l| l.starts_with("OUTCOME")).map(|l| l.to_string());
            Ok((out.timed_out || outcome.is_none(), format!("timed_out={} outcome={:?}", out.timed_out, outcome)))
        }
        _ => Err("kind".into()),
    }
}
