//! (D) exact form — Lemma 1 (symmetric-population identity), evaluated by brute force on the real sketchers.
//! For a sketcher whose sketch is a function of the set and whose winning item at a position does not depend on what
//! the items are called, summed over ALL labellings of a set shape (|A\B|,|B\A|,|A∩B|) = (ca,cb,cab) by identifiers
//! of a block, the number of labellings with sketch(A)[p] == sketch(B)[p] equals cab/u x (number of labellings),
//! for every position p.  The sketch depends on the set only, so labellings are enumerated as disjoint subset
//! triples (each standing for ca! cb! cab! role assignments).

use crate::common::mean_se;
use rayon::prelude::*;
use std::collections::HashMap;

/// a sketcher as a function from an item list to its views (each view: one u64 word per position)
pub type ViewsFn = dyn Fn(&[u64]) -> Result<Vec<Vec<u64>>, String> + Sync;

pub struct IdentityOut {
    pub triples: u64,
    pub sketches_computed: u64,
    pub positions: usize,
    pub views: usize,
    /// (view, position, collisions, expected numerator) of the first broken position
    pub broken: Option<(usize, usize, u64, String)>,
    pub error: Option<String>,
}

fn subsets_of_size(n: usize, k: usize, f: &mut dyn FnMut(u32)) {
    fn rec(n: usize, k: usize, start: usize, cur: u32, f: &mut dyn FnMut(u32)) {
        if k == 0 {
            f(cur);
            return;
        }
        for i in start..=(n - k) {
            rec(n, k - 1, i + 1, cur | (1 << i), f);
        }
    }
    if k <= n {
        rec(n, k, 0, 0, f);
    }
}

/// exact identity over all disjoint (A\B, B\A, A∩B) subset triples of `block`
pub fn check_identity(sk: &ViewsFn, block: &[u64], ca: usize, cb: usize, cab: usize) -> IdentityOut {
    let n = block.len();
    let u = ca + cb + cab;
    let mut out = IdentityOut { triples: 0, sketches_computed: 0, positions: 0, views: 0, broken: None, error: None };
    // sketches of all subsets of the sizes needed, cached by mask
    let mut masks: Vec<u32> = Vec::new();
    for size in [ca + cab, cb + cab] {
        subsets_of_size(n, size, &mut |m| masks.push(m));
    }
    masks.sort();
    masks.dedup();
    let computed: Vec<(u32, Result<Vec<Vec<u64>>, String>)> = masks
        .par_iter()
        .map(|mask| {
            let items: Vec<u64> = (0..n).filter(|i| mask & (1 << i) != 0).map(|i| block[i]).collect();
            (*mask, if items.is_empty() { Err("empty set".to_string()) } else { sk(&items) })
        })
        .collect();
    out.sketches_computed = computed.len() as u64;
    let mut cache: HashMap<u32, Vec<Vec<u64>>> = HashMap::new();
    for (m, r) in computed {
        match r {
            Ok(v) => {
                cache.insert(m, v);
            }
            Err(e) => {
                out.error = Some(format!("sketching subset {:#b}: {}", m, e));
                return out;
            }
        }
    }
    let any = match cache.values().next() {
        Some(v) => v,
        None => return out,
    };
    let nviews = any.len();
    let npos = any[0].len();
    out.views = nviews;
    out.positions = npos;
    let mut coll = vec![vec![0u64; npos]; nviews];
    let mut triples = 0u64;
    // enumerate: S_ab of size cab, then S_a of size ca in the complement, then S_b of size cb in the rest
    let mut ab_sets = Vec::new();
    subsets_of_size(n, cab, &mut |m| ab_sets.push(m));
    for sab in ab_sets {
        let mut a_sets = Vec::new();
        subsets_of_size(n, ca, &mut |m| {
            if m & sab == 0 {
                a_sets.push(m)
            }
        });
        for sa in a_sets {
            let mut b_sets = Vec::new();
            subsets_of_size(n, cb, &mut |m| {
                if m & (sab | sa) == 0 {
                    b_sets.push(m)
                }
            });
            for sb in b_sets {
                triples += 1;
                let va = &cache[&(sa | sab)];
                let vb = &cache[&(sb | sab)];
                for v in 0..nviews {
                    for p in 0..npos {
                        if va[v][p] == vb[v][p] {
                            coll[v][p] += 1;
                        }
                    }
                }
            }
        }
    }
    out.triples = triples;
    for v in 0..nviews {
        for p in 0..npos {
            // collisions * u == triples * cab
            if coll[v][p] * u as u64 != triples * cab as u64 {
                out.broken = Some((v, p, coll[v][p], format!("{} * {} != {} * {}", coll[v][p], u, triples, cab)));
                return out;
            }
        }
    }
    out
}

pub struct PartitionOut {
    pub t: u64,
    pub mean: f64,
    pub se: f64,
    pub mse: f64,
    pub mse_se: f64,
    pub j: f64,
}

/// tolerance form: T disjoint labellings t*u.. of the shape by consecutive identifiers from `base`; statistic = fraction of
/// equal positions in view `view`
pub fn partition(sk: &ViewsFn, base: u64, ca: u64, cb: u64, cab: u64, t: u64, view: usize) -> Result<PartitionOut, String> {
    let u = ca + cb + cab;
    let j = cab as f64 / u as f64;
    let vals: Vec<Result<f64, String>> = (0..t)
        .into_par_iter()
        .map(|tt| {
            let o = base.wrapping_add(tt * u);
            let a: Vec<u64> = (o..o + ca).chain(o + ca + cb..o + u).collect();
            let b: Vec<u64> = (o + ca..o + ca + cb).chain(o + ca + cb..o + u).collect();
            let va = sk(&a)?;
            let vb = sk(&b)?;
            let m = va[view].len();
            let eq = va[view].iter().zip(vb[view].iter()).filter(|(x, y)| x == y).count();
            Ok(eq as f64 / m as f64)
        })
        .collect();
    let mut v = Vec::with_capacity(t as usize);
    for x in vals {
        v.push(x?);
    }
    let (mean, se) = mean_se(&v);
    let sq: Vec<f64> = v.iter().map(|x| (x - j) * (x - j)).collect();
    let (mse, mse_se) = mean_se(&sq);
    Ok(PartitionOut { t, mean, se, mse, mse_se, j })
}
