//! Uniform operation-level access to every sketcher of the crate (real code), for the operation-sequence
//! explorations (C04, C12, C13).

use crate::common::guarded_mut;
use fnv::FnvHasher;
use indexmap::IndexMap;
use probminhash::densminhash::{OptDensMinHash, RevOptDensMinHash};
use probminhash::nohasher::NoHashHasher;
use probminhash::probminhasher::probordminhash2::ProbOrdMinHash2;
use probminhash::probminhasher::{ProbMinHash2, ProbMinHash3, ProbMinHash3a, ProbMinHash3aSha};
use probminhash::setsketcher::{SetSketchParams, SetSketcher};
use probminhash::superminhasher::SuperMinHash;
use probminhash::superminhasher2::SuperMinHash2;
use std::collections::HashMap;
use std::hash::BuildHasherDefault;
use twox_hash::XxHash32;

#[derive(Clone, Debug, PartialEq, Eq, Hash)]
pub enum Op {
    /// stream one item
    Item(u64),
    /// stream `count` consecutive items starting at `start`, one by one
    Burst(u64, usize),
    /// one slice / batch call
    Slice(Vec<u64>),
    /// finishing step of the densified sketchers
    End,
    /// merge with a fixed other sketch (SetSketch only)
    MergeFixed,
    /// reinit / reset
    Reinit,
}

#[derive(Clone, Debug, PartialEq, Eq)]
pub enum Applied {
    Done,
    /// the sketcher has no such operation
    Unsupported,
    /// the call reported an error (Err or panic): an observation, not a crash
    Failed(String),
}

pub trait Inst {
    fn apply(&mut self, op: &Op) -> Applied;
    /// every observable view as 64-bit words; may finish the sketch, so the instance is discarded afterwards
    fn observe(&mut self) -> Result<Vec<u64>, String>;
    /// internal-state flags used for non-vacuity counters (free form)
    fn flags(&self) -> Vec<(&'static str, bool)> {
        vec![]
    }
}

pub fn weight_of(x: u64) -> f64 {
    1.0 + (x % 5) as f64 * 0.75
}

fn fb64(v: &[f64]) -> Vec<u64> {
    v.iter().map(|x| x.to_bits()).collect()
}

fn g<T>(f: impl FnOnce() -> T) -> Result<T, String> {
    guarded_mut(f)
}

fn to_applied(r: Result<Result<(), String>, String>) -> Applied {
    match r {
        Ok(Ok(())) => Applied::Done,
        Ok(Err(e)) => Applied::Failed(e),
        Err(p) => Applied::Failed(format!("panic: {}", p)),
    }
}

// ---------------------------------------------------------------- SuperMinHash (float)

pub struct ISmh<F: num::Float + rand_distr::uniform::SampleUniform + std::fmt::Debug + Send, H: std::hash::Hasher + Default = FnvHasher> {
    s: SuperMinHash<F, u64, H>,
    m: usize,
    fed: usize,
}
impl<F: num::Float + rand_distr::uniform::SampleUniform + std::fmt::Debug + Send, H: std::hash::Hasher + Default> ISmh<F, H>
where
    rand::distr::StandardUniform: rand::distr::Distribution<F>,
{
    pub fn new(m: usize) -> Self {
        ISmh { s: SuperMinHash::new(m, BuildHasherDefault::<H>::default()), m, fed: 0 }
    }
}
impl<F: num::Float + rand_distr::uniform::SampleUniform + std::fmt::Debug + Send, H: std::hash::Hasher + Default> Inst for ISmh<F, H>
where
    rand::distr::StandardUniform: rand::distr::Distribution<F>,
{
    fn apply(&mut self, op: &Op) -> Applied {
        let s = &mut self.s;
        match op {
            Op::Item(x) => {
                self.fed += 1;
                to_applied(g(|| s.sketch(x).map_err(|e| e.to_string())))
            }
            Op::Burst(st, n) => {
                self.fed += n;
                to_applied(g(|| {
                    for x in *st..(*st + *n as u64) {
                        s.sketch(&x).map_err(|e| e.to_string())?;
                    }
                    Ok(())
                }))
            }
            Op::Slice(v) => {
                self.fed += v.len();
                to_applied(g(|| s.sketch_slice(v).map_err(|e| e.to_string())))
            }
            Op::Reinit => {
                self.fed = 0;
                to_applied(g(|| {
                    s.reinit();
                    Ok(())
                }))
            }
            _ => Applied::Unsupported,
        }
    }
    fn observe(&mut self) -> Result<Vec<u64>, String> {
        let s = &self.s;
        g(|| s.get_hsketch().iter().map(|f| f.to_f64().unwrap().to_bits()).collect())
    }
    fn flags(&self) -> Vec<(&'static str, bool)> {
        // a_upper is lowered once every position has been improved below m-1: proxy = every register < m-1
        let low = self.s.get_hsketch().iter().all(|f| f.to_f64().unwrap() < (self.m - 1) as f64);
        vec![("all_registers_below_m-1", low && self.m > 1), ("items_fed", self.fed > 0)]
    }
}

// ---------------------------------------------------------------- SuperMinHash2 (integer)

pub struct ISmh2U64<H: std::hash::Hasher + Default = FnvHasher> {
    s: SuperMinHash2<u64, u64, H>,
}
impl<H: std::hash::Hasher + Default> ISmh2U64<H> {
    pub fn new(m: usize) -> Self {
        ISmh2U64 { s: SuperMinHash2::new(m, BuildHasherDefault::<H>::default()) }
    }
}
impl<H: std::hash::Hasher + Default> Inst for ISmh2U64<H> {
    fn apply(&mut self, op: &Op) -> Applied {
        let s = &mut self.s;
        match op {
            Op::Item(x) => to_applied(g(|| s.sketch(x).map_err(|_| "err".to_string()))),
            Op::Burst(st, n) => to_applied(g(|| {
                for x in *st..(*st + *n as u64) {
                    s.sketch(&x).map_err(|_| "err".to_string())?;
                }
                Ok(())
            })),
            Op::Slice(v) => to_applied(g(|| s.sketch_slice(v).map_err(|_| "empty slice".to_string()))),
            Op::Reinit => to_applied(g(|| {
                s.reinit();
                Ok(())
            })),
            _ => Applied::Unsupported,
        }
    }
    fn observe(&mut self) -> Result<Vec<u64>, String> {
        let s = &self.s;
        g(|| s.get_hsketch().clone())
    }
}

pub struct ISmh2U32 {
    s: SuperMinHash2<u32, u64, XxHash32>,
}
impl ISmh2U32 {
    pub fn new(m: usize) -> Self {
        ISmh2U32 { s: SuperMinHash2::new(m, BuildHasherDefault::<XxHash32>::default()) }
    }
}
impl Inst for ISmh2U32 {
    fn apply(&mut self, op: &Op) -> Applied {
        let s = &mut self.s;
        match op {
            Op::Item(x) => to_applied(g(|| s.sketch(x).map_err(|_| "err".to_string()))),
            Op::Burst(st, n) => to_applied(g(|| {
                for x in *st..(*st + *n as u64) {
                    s.sketch(&x).map_err(|_| "err".to_string())?;
                }
                Ok(())
            })),
            Op::Slice(v) => to_applied(g(|| s.sketch_slice(v).map_err(|_| "empty slice".to_string()))),
            Op::Reinit => to_applied(g(|| {
                s.reinit();
                Ok(())
            })),
            _ => Applied::Unsupported,
        }
    }
    fn observe(&mut self) -> Result<Vec<u64>, String> {
        let s = &self.s;
        g(|| s.get_hsketch().iter().map(|x| *x as u64).collect())
    }
}

// ---------------------------------------------------------------- SetSketch

pub fn setsketch_params(variant: usize, m: usize) -> SetSketchParams {
    match variant {
        0 => SetSketchParams::new(1.001, m as u64, 20., 65534),
        1 => SetSketchParams::new(2.0, m as u64, 20., 62),
        // same b, m, q as #0 but another rate a (a table or cache keyed by m, or by (b, m, q), would confuse them)
        3 => SetSketchParams::new(1.001, m as u64, 5., 65534),
        _ => SetSketchParams::new(1.2, m as u64, 20., 3), // forces the upper clip
    }
}

pub struct ISet<I: num::Integer + num::ToPrimitive + num::FromPrimitive + num::Bounded + Copy + Clone + std::fmt::Debug + Send, H: std::hash::Hasher + Default = FnvHasher> {
    s: SetSketcher<I, u64, H>,
    other: SetSketcher<I, u64, H>,
}
impl<I: num::Integer + num::ToPrimitive + num::FromPrimitive + num::Bounded + Copy + Clone + std::fmt::Debug + Send, H: std::hash::Hasher + Default> ISet<I, H> {
    pub fn new(variant: usize, m: usize) -> Self {
        let p = setsketch_params(variant, m);
        let mut other = SetSketcher::<I, u64, H>::new(p, BuildHasherDefault::<H>::default());
        for x in 5000u64..5040 {
            let _ = other.sketch(&x);
        }
        ISet { s: SetSketcher::new(p, BuildHasherDefault::<H>::default()), other }
    }
}
impl<I: num::Integer + num::ToPrimitive + num::FromPrimitive + num::Bounded + Copy + Clone + std::fmt::Debug + Send, H: std::hash::Hasher + Default> Inst for ISet<I, H> {
    fn apply(&mut self, op: &Op) -> Applied {
        let s = &mut self.s;
        match op {
            Op::Item(x) => to_applied(g(|| s.sketch(x).map_err(|e| e.to_string()))),
            Op::Burst(st, n) => to_applied(g(|| {
                for x in *st..(*st + *n as u64) {
                    s.sketch(&x).map_err(|e| e.to_string())?;
                }
                Ok(())
            })),
            Op::Slice(v) => to_applied(g(|| s.sketch_slice(v).map_err(|e| e.to_string()))),
            Op::MergeFixed => {
                let o = &self.other;
                to_applied(g(|| s.merge(o).map_err(|e| e.to_string())))
            }
            Op::Reinit => to_applied(g(|| {
                s.reinit();
                Ok(())
            })),
            _ => Applied::Unsupported,
        }
    }
    fn observe(&mut self) -> Result<Vec<u64>, String> {
        let s = &self.s;
        g(|| {
            let mut v: Vec<u64> = s.get_signature().iter().map(|x| x.to_u64().unwrap()).collect();
            let (c, r) = s.get_cardinal_stats();
            v.push(c.to_bits());
            v.push(r.to_bits());
            v.push(s.get_nb_overflow());
            v.push(s.get_low_sketch() as u64);
            v
        })
    }
    fn flags(&self) -> Vec<(&'static str, bool)> {
        vec![("lower_k_raised", self.s.get_low_sketch() > 0), ("register_overflowed", self.s.get_nb_overflow() > 0)]
    }
}

// ---------------------------------------------------------------- densified OPH

macro_rules! dens_inst {
    ($name:ident, $ty:ident) => {
        pub struct $name<F: crate::dens::FBits + Send, H: std::hash::Hasher + Default = FnvHasher> {
            s: $ty<F, u64, H>,
        }
        impl<F: crate::dens::FBits + Send, H: std::hash::Hasher + Default> $name<F, H>
        where
            rand::distr::StandardUniform: rand::distr::Distribution<F>,
        {
            pub fn new(m: usize) -> Self {
                $name { s: $ty::new(m, BuildHasherDefault::<H>::default()) }
            }
        }
        impl<F: crate::dens::FBits + Send, H: std::hash::Hasher + Default> Inst for $name<F, H>
        where
            rand::distr::StandardUniform: rand::distr::Distribution<F>,
        {
            fn apply(&mut self, op: &Op) -> Applied {
                let s = &mut self.s;
                match op {
                    Op::Item(x) => to_applied(g(|| {
                        s.sketch(x);
                        Ok(())
                    })),
                    Op::Burst(st, n) => to_applied(g(|| {
                        for x in *st..(*st + *n as u64) {
                            s.sketch(&x);
                        }
                        Ok(())
                    })),
                    Op::Slice(v) => {
                        // an empty slice on an empty sketcher is the (separately checked) termination case of C09
                        let (_, _, _, nb_empty) = s.verif_state();
                        if v.is_empty() && nb_empty as usize == s.verif_state().0.len() {
                            return Applied::Unsupported;
                        }
                        let _w = crate::common::watched(|| format!("sketch_slice on a densified sketcher ({} items)", v.len()));
                        to_applied(g(|| s.sketch_slice(v).map_err(|e| e.to_string())))
                    }
                    Op::End => {
                        let (hs, _, _, nb_empty) = s.verif_state();
                        if nb_empty as usize == hs.len() {
                            return Applied::Unsupported;
                        }
                        let _w = crate::common::watched(|| "end_sketch".to_string());
                        to_applied(g(|| {
                            s.end_sketch();
                            Ok(())
                        }))
                    }
                    Op::Reinit => to_applied(g(|| {
                        s.reinit();
                        Ok(())
                    })),
                    _ => Applied::Unsupported,
                }
            }
            fn observe(&mut self) -> Result<Vec<u64>, String> {
                let s = &mut self.s;
                let (hs, _, _, nb_empty) = s.verif_state();
                if nb_empty as usize == hs.len() {
                    return Ok(vec![0xE0E0_E0E0]); // nothing streamed: no sketch to observe
                }
                let _w = crate::common::watched(|| "end_sketch (before reading the sketch)".to_string());
                g(|| {
                    s.end_sketch();
                    let mut v: Vec<u64> = s.get_hsketch().iter().map(|f| f.bits()).collect();
                    v.extend(s.get_hsketch_u64());
                    v.extend(s.get_hsketch_u32().iter().map(|x| *x as u64));
                    v
                })
            }
            fn flags(&self) -> Vec<(&'static str, bool)> {
                let (hs, _, _, nb_empty) = self.s.verif_state();
                vec![("densification_pending", nb_empty > 0 && (nb_empty as usize) < hs.len()), ("finished", nb_empty == 0)]
            }
        }
    };
}
dens_inst!(IOpt, OptDensMinHash);
dens_inst!(IRev, RevOptDensMinHash);

// ---------------------------------------------------------------- ProbMinHash family

pub struct IPmh2 {
    s: ProbMinHash2<u64, FnvHasher>,
}
impl IPmh2 {
    pub fn new(m: usize) -> Self {
        IPmh2 { s: ProbMinHash2::new(m, u64::MAX) }
    }
}
impl Inst for IPmh2 {
    fn apply(&mut self, op: &Op) -> Applied {
        let s = &mut self.s;
        match op {
            Op::Item(x) => to_applied(g(|| {
                s.hash_item(*x, weight_of(*x));
                Ok(())
            })),
            Op::Burst(st, n) => to_applied(g(|| {
                for x in *st..(*st + *n as u64) {
                    s.hash_item(x, weight_of(x));
                }
                Ok(())
            })),
            Op::Slice(v) => to_applied(g(|| {
                let mut hm: HashMap<u64, f64> = HashMap::new();
                for x in v {
                    hm.insert(*x, weight_of(*x));
                }
                s.hash_weigthed_hashmap::<std::collections::hash_map::RandomState>(&hm);
                Ok(())
            })),
            Op::Reinit => to_applied(g(|| {
                s.reset();
                Ok(())
            })),
            _ => Applied::Unsupported,
        }
    }
    fn observe(&mut self) -> Result<Vec<u64>, String> {
        let s = &self.s;
        g(|| {
            let mut v = s.get_signature().clone();
            v.extend(fb64(&s.verif_registers()));
            v
        })
    }
}

pub struct IPmh3 {
    s: ProbMinHash3<u64, FnvHasher>,
}
impl IPmh3 {
    pub fn new(m: usize) -> Self {
        IPmh3 { s: ProbMinHash3::new(m.max(2), u64::MAX) }
    }
}
impl Inst for IPmh3 {
    fn apply(&mut self, op: &Op) -> Applied {
        let s = &mut self.s;
        match op {
            Op::Item(x) => to_applied(g(|| {
                s.hash_item(*x, &weight_of(*x));
                Ok(())
            })),
            Op::Burst(st, n) => to_applied(g(|| {
                for x in *st..(*st + *n as u64) {
                    s.hash_item(x, &weight_of(x));
                }
                Ok(())
            })),
            Op::Slice(v) => to_applied(g(|| {
                let mut hm: HashMap<u64, f64> = HashMap::new();
                for x in v {
                    hm.insert(*x, weight_of(*x));
                }
                s.hash_weigthed_hashmap(&hm);
                Ok(())
            })),
            _ => Applied::Unsupported,
        }
    }
    fn observe(&mut self) -> Result<Vec<u64>, String> {
        let s = &self.s;
        g(|| {
            let mut v = s.get_signature().clone();
            v.extend(fb64(&s.verif_registers()));
            v
        })
    }
}

/// ProbMinHash3a: batches only; `use_hashmap` selects the std HashMap entry point (per-process random order)
pub struct IPmh3a {
    s: ProbMinHash3a<u64, FnvHasher>,
    use_hashmap: bool,
}
impl IPmh3a {
    pub fn new(m: usize, use_hashmap: bool) -> Self {
        IPmh3a { s: ProbMinHash3a::new(m.max(2), u64::MAX), use_hashmap }
    }
}
impl Inst for IPmh3a {
    fn apply(&mut self, op: &Op) -> Applied {
        let s = &mut self.s;
        let hmflag = self.use_hashmap;
        let mut batch = |items: Vec<u64>| {
            to_applied(g(|| {
                if hmflag {
                    let mut hm: HashMap<u64, f64> = HashMap::new();
                    for x in &items {
                        hm.insert(*x, weight_of(*x));
                    }
                    s.hash_weigthed_hashmap(&hm);
                } else {
                    let mut im: IndexMap<u64, f64> = IndexMap::new();
                    for x in &items {
                        im.insert(*x, weight_of(*x));
                    }
                    s.hash_weigthed_idxmap(&im);
                }
                Ok(())
            }))
        };
        match op {
            Op::Item(x) => batch(vec![*x]),
            Op::Burst(st, n) => batch((*st..(*st + *n as u64)).collect()),
            Op::Slice(v) => batch(v.clone()),
            _ => Applied::Unsupported,
        }
    }
    fn observe(&mut self) -> Result<Vec<u64>, String> {
        let s = &self.s;
        g(|| {
            let mut v = s.get_signature().clone();
            v.extend(fb64(&s.verif_registers()));
            v
        })
    }
}

pub struct IPmh3aSha {
    s: ProbMinHash3aSha<String>,
    use_hashmap: bool,
}
impl IPmh3aSha {
    pub fn new(m: usize, use_hashmap: bool) -> Self {
        IPmh3aSha { s: ProbMinHash3aSha::new(m.max(2), "<init>".to_string()), use_hashmap }
    }
}
fn key_of(x: u64) -> String {
    format!("key-{}-é", x)
}
impl Inst for IPmh3aSha {
    fn apply(&mut self, op: &Op) -> Applied {
        let s = &mut self.s;
        let hmflag = self.use_hashmap;
        let mut batch = |items: Vec<u64>| {
            to_applied(g(|| {
                if hmflag {
                    let mut hm: HashMap<String, f64> = HashMap::new();
                    for x in &items {
                        hm.insert(key_of(*x), weight_of(*x));
                    }
                    s.hash_weigthed_hashmap(&hm);
                } else {
                    let mut im: IndexMap<String, f64> = IndexMap::new();
                    for x in &items {
                        im.insert(key_of(*x), weight_of(*x));
                    }
                    s.hash_weigthed_idxmap(&im);
                }
                Ok(())
            }))
        };
        match op {
            Op::Item(x) => batch(vec![*x]),
            Op::Burst(st, n) => batch((*st..(*st + *n as u64)).collect()),
            Op::Slice(v) => batch(v.clone()),
            _ => Applied::Unsupported,
        }
    }
    fn observe(&mut self) -> Result<Vec<u64>, String> {
        let s = &self.s;
        g(|| {
            let mut v: Vec<u64> = s
                .get_signature()
                .iter()
                .map(|k| {
                    let mut h = FnvHasher::default();
                    std::hash::Hasher::write(&mut h, k.as_bytes());
                    std::hash::Hasher::finish(&h)
                })
                .collect();
            v.extend(fb64(&s.verif_registers()));
            v
        })
    }
}

// ---------------------------------------------------------------- ProbMinHash3aSha on vector keys

/// ProbMinHash3aSha with Vec<u32> keys (each key is a freshly allocated vector: its identity must be its content, never
/// its address, capacity or length word)
pub struct IPmh3aShaVec {
    s: ProbMinHash3aSha<Vec<u32>>,
}
impl IPmh3aShaVec {
    pub fn new(m: usize) -> Self {
        IPmh3aShaVec { s: ProbMinHash3aSha::new(m.max(2), vec![u32::MAX, 7]) }
    }
}
fn vec_key_of(x: u64) -> Vec<u32> {
    let mut v = Vec::with_capacity(1 + (x % 5) as usize);
    v.push(x as u32);
    if x % 3 == 0 {
        v.push((x >> 32) as u32 ^ 0xABCD);
    }
    v
}
impl Inst for IPmh3aShaVec {
    fn apply(&mut self, op: &Op) -> Applied {
        let s = &mut self.s;
        let mut batch = |items: Vec<u64>| {
            to_applied(g(|| {
                let mut im: IndexMap<Vec<u32>, f64> = IndexMap::new();
                for x in &items {
                    im.insert(vec_key_of(*x), weight_of(*x));
                }
                s.hash_weigthed_idxmap(&im);
                Ok(())
            }))
        };
        match op {
            Op::Item(x) => batch(vec![*x]),
            Op::Burst(st, n) => batch((*st..(*st + *n as u64)).collect()),
            Op::Slice(v) => batch(v.clone()),
            _ => Applied::Unsupported,
        }
    }
    fn observe(&mut self) -> Result<Vec<u64>, String> {
        let s = &self.s;
        g(|| {
            let mut v: Vec<u64> = s.get_signature().iter().map(|k| k.iter().fold(0xcbf29ce484222325u64, |h, w| (h ^ *w as u64).wrapping_mul(0x100000001b3))).collect();
            v.extend(fb64(&s.verif_registers()));
            v
        })
    }
}

// ---------------------------------------------------------------- ProbOrdMinHash2

/// every Slice op is one hash_set call; the observation is the list of all signatures returned so far.
/// `pin_seed`: pin the instance seed through hook H4 (C13 compares one instance with itself; C12 must NOT pin)
pub struct IPomh2 {
    s: ProbOrdMinHash2<FnvHasher>,
    l: usize,
    last: Vec<u64>,
}
impl IPomh2 {
    pub fn new(m: usize, l: usize, pin_seed: bool) -> Self {
        let mut s = ProbOrdMinHash2::<FnvHasher>::new(m as u32, l);
        if pin_seed {
            s.verif_set_seed(crate::props::c11::FIXED_SEED);
        }
        IPomh2 { s, l, last: vec![] }
    }
}
impl Inst for IPomh2 {
    fn apply(&mut self, op: &Op) -> Applied {
        let s = &mut self.s;
        let items: Vec<u64> = match op {
            Op::Slice(v) => v.clone(),
            Op::Burst(st, n) => (*st..(*st + *n as u64)).collect(),
            Op::Item(x) => vec![*x; self.l],
            _ => return Applied::Unsupported,
        };
        match g(|| s.hash_set(&items)) {
            Ok(sig) => {
                self.last = sig;
                Applied::Done
            }
            Err(p) => Applied::Failed(format!("panic: {}", p)),
        }
    }
    fn observe(&mut self) -> Result<Vec<u64>, String> {
        Ok(self.last.clone())
    }
}

// ---------------------------------------------------------------- catalogue

pub struct Kind {
    pub name: String,
    pub build: Box<dyn Fn() -> Box<dyn Inst> + Send + Sync>,
    pub has_reinit: bool,
    pub has_end: bool,
    pub has_merge: bool,
    /// items may only arrive in batches of at least this size (ProbOrdMinHash2: l)
    pub min_batch: usize,
    pub streaming_items: bool,
}

fn kind(name: String, has_reinit: bool, has_end: bool, has_merge: bool, min_batch: usize, streaming_items: bool, build: impl Fn() -> Box<dyn Inst> + Send + Sync + 'static) -> Kind {
    Kind { name, build: Box::new(build), has_reinit, has_end, has_merge, min_batch, streaming_items }
}

/// all sketcher types x parameterisations; `pin_pomh_seed` as documented on IPomh2
pub fn catalogue(sizes: &[usize], pin_pomh_seed: bool) -> Vec<Kind> {
    let mut v = Vec::new();
    for &m in sizes {
        v.push(kind(format!("SuperMinHash<f64> m={}", m), true, false, false, 1, true, move || Box::new(ISmh::<f64, FnvHasher>::new(m))));
        v.push(kind(format!("SuperMinHash<f32> m={}", m), true, false, false, 1, true, move || Box::new(ISmh::<f32, FnvHasher>::new(m))));
        v.push(kind(format!("SuperMinHash2<u64> m={}", m), true, false, false, 1, true, move || Box::new(ISmh2U64::<FnvHasher>::new(m))));
        v.push(kind(format!("SuperMinHash2<u32,XxHash32> m={}", m), true, false, false, 1, true, move || Box::new(ISmh2U32::new(m))));
        for variant in 0..3 {
            v.push(kind(format!("SetSketcher<u16> params#{} m={}", variant, m), true, false, true, 1, true, move || Box::new(ISet::<u16, FnvHasher>::new(variant, m))));
        }
        v.push(kind(format!("SetSketcher<u16> params#3 (a = 5) m={}", m), true, false, true, 1, true, move || Box::new(ISet::<u16, FnvHasher>::new(3, m))));
        // a signed register type (the bounds allow it)
        v.push(kind(format!("SetSketcher<i32> params#0 m={}", m), true, false, true, 1, true, move || Box::new(ISet::<i32, FnvHasher>::new(0, m))));
        v.push(kind(format!("SetSketcher<u32> params#0 m={}", m), true, false, true, 1, true, move || Box::new(ISet::<u32, FnvHasher>::new(0, m))));
        v.push(kind(format!("SetSketcher<u8> params#0 m={} (overflowing registers)", m), true, false, true, 1, true, move || Box::new(ISet::<u8, FnvHasher>::new(0, m))));
        v.push(kind(format!("OptDensMinHash<f64> m={}", m), true, true, false, 1, true, move || Box::new(IOpt::<f64, FnvHasher>::new(m))));
        v.push(kind(format!("RevOptDensMinHash<f64> m={}", m), true, true, false, 1, true, move || Box::new(IRev::<f64, FnvHasher>::new(m))));
        v.push(kind(format!("OptDensMinHash<f32> m={}", m), true, true, false, 1, true, move || Box::new(IOpt::<f32, FnvHasher>::new(m))));
        v.push(kind(format!("RevOptDensMinHash<f32> m={}", m), true, true, false, 1, true, move || Box::new(IRev::<f32, FnvHasher>::new(m))));
        // pass-through hasher (pre-hashed data): item hashes are the items themselves, including 0
        v.push(kind(format!("SuperMinHash<f64,NoHash> m={}", m), true, false, false, 1, true, move || Box::new(ISmh::<f64, NoHashHasher>::new(m))));
        v.push(kind(format!("SuperMinHash2<u64,NoHash> m={}", m), true, false, false, 1, true, move || Box::new(ISmh2U64::<NoHashHasher>::new(m))));
        v.push(kind(format!("SetSketcher<u16,NoHash> params#1 m={}", m), true, false, true, 1, true, move || Box::new(ISet::<u16, NoHashHasher>::new(1, m))));
        v.push(kind(format!("OptDensMinHash<f64,NoHash> m={}", m), true, true, false, 1, true, move || Box::new(IOpt::<f64, NoHashHasher>::new(m))));
        v.push(kind(format!("RevOptDensMinHash<f64,NoHash> m={}", m), true, true, false, 1, true, move || Box::new(IRev::<f64, NoHashHasher>::new(m))));
        v.push(kind(format!("ProbMinHash2 m={}", m), true, false, false, 1, true, move || Box::new(IPmh2::new(m))));
        if m >= 2 {
            v.push(kind(format!("ProbMinHash3 m={}", m), false, false, false, 1, true, move || Box::new(IPmh3::new(m))));
            v.push(kind(format!("ProbMinHash3a(IndexMap) m={}", m), false, false, false, 1, false, move || Box::new(IPmh3a::new(m, false))));
            v.push(kind(format!("ProbMinHash3a(HashMap) m={}", m), false, false, false, 1, false, move || Box::new(IPmh3a::new(m, true))));
            v.push(kind(format!("ProbMinHash3aSha(IndexMap) m={}", m), false, false, false, 1, false, move || Box::new(IPmh3aSha::new(m, false))));
            v.push(kind(format!("ProbMinHash3aSha(HashMap) m={}", m), false, false, false, 1, false, move || Box::new(IPmh3aSha::new(m, true))));
            v.push(kind(format!("ProbMinHash3aSha<Vec<u32>>(IndexMap) m={}", m), false, false, false, 1, false, move || Box::new(IPmh3aShaVec::new(m))));
        }
        for l in [1usize, 2] {
            v.push(kind(format!("ProbOrdMinHash2 m={} l={}", m, l), false, false, false, l, false, move || Box::new(IPomh2::new(m, l, pin_pomh_seed))));
        }
    }
    v
}
