#![allow(dead_code)]
//! `mc <Cxx> [--tier quick|thorough] [--replay <file>]` — model-checking harness for probminhash.
//! Every exploration drives the real implementation from /repo (built with --cfg probminhash_verif).

mod common;
mod dens;
mod lemma1;
mod props;
mod script;
mod sketchers;

use common::{Ctx, Tier};

fn main() {
    let args: Vec<String> = std::env::args().collect();
    if args.len() < 2 {
        eprintln!("usage: mc <Cxx> [--tier quick|thorough] [--replay file] | mc --child <name> args..");
        std::process::exit(2);
    }
    common::install_quiet_panic_hook();
    if args[1] == "--child" {
        // supervised sub-process entry points
        let code = props::child_main(&args[2..]);
        std::process::exit(code);
    }
    common::out_filter_install();
    let prop = args[1].clone();
    let mut tier = match std::env::var("VERIF_TIER").ok().as_deref() {
        Some("thorough") => Tier::Thorough,
        _ => Tier::Quick,
    };
    let mut replay: Option<String> = None;
    let mut i = 2;
    while i < args.len() {
        match args[i].as_str() {
            "--tier" => {
                i += 1;
                tier = match args.get(i).map(|s| s.as_str()) {
                    Some("thorough") => Tier::Thorough,
                    Some("quick") => Tier::Quick,
                    other => {
                        eprintln!("ENGINE-ERROR bad tier {:?}", other);
                        std::process::exit(2);
                    }
                };
            }
            "--replay" => {
                i += 1;
                replay = args.get(i).cloned();
            }
            other => {
                eprintln!("ENGINE-ERROR unknown argument {}", other);
                std::process::exit(2);
            }
        }
        i += 1;
    }
    let seed: u64 = std::env::var("VERIF_SEED")
        .ok()
        .and_then(|s| s.trim().parse::<i64>().ok())
        .map(|v| v as u64)
        .unwrap_or(0);
    let mut ctx = Ctx::new(&prop, tier, seed);
    let code = if let Some(path) = replay {
        ctx.replay_mode = true;
        props::replay(&ctx, &path)
    } else {
        props::run(&ctx)
    };
    common::exit_process(code);
}
