//! (B) scripted generator: a `RngCore` that replays pre-programmed 64-bit words, so that the harness owns every
//! draw of the randomised primitives that take their generator as a parameter (FYshuffle::next, ExpRestricted01::sample).

use rand_core::RngCore;

pub const TWO52: f64 = 4503599627370496.0;

/// word such that rand 0.9's `Uniform::<f64>::new(0.,1.)` returns exactly `k * 2^-52`
#[inline]
pub fn word_for_k(k: u64) -> u64 {
    debug_assert!(k < (1u64 << 52));
    k << 12
}

/// word whose uniform value is the midpoint of the c-th of r equal intervals of [0,1)
#[inline]
pub fn word_mid(c: u64, r: u64) -> u64 {
    // floor((c + 1/2) / r * 2^52), computed exactly in u128
    let k = (((2 * c + 1) as u128) << 51) / (r as u128);
    word_for_k(k as u64)
}

/// the uniform value rand produces from a word
#[inline]
pub fn u_of_word(w: u64) -> f64 {
    (w >> 12) as f64 / TWO52
}

pub struct Script<'a> {
    words: &'a [u64],
    pub pos: usize,
    /// number of draws requested beyond the script
    pub overrun: usize,
    /// word served once the script is exhausted
    pub filler: u64,
}

impl<'a> Script<'a> {
    pub fn new(words: &'a [u64]) -> Self {
        Script { words, pos: 0, overrun: 0, filler: 0 }
    }
    pub fn consumed(&self) -> usize {
        self.pos
    }
}

impl<'a> RngCore for Script<'a> {
    fn next_u32(&mut self) -> u32 {
        (self.next_u64() >> 32) as u32
    }
    fn next_u64(&mut self) -> u64 {
        if self.pos < self.words.len() {
            let w = self.words[self.pos];
            self.pos += 1;
            w
        } else {
            self.overrun += 1;
            self.filler
        }
    }
    fn fill_bytes(&mut self, dst: &mut [u8]) {
        for chunk in dst.chunks_mut(8) {
            let w = self.next_u64().to_le_bytes();
            chunk.copy_from_slice(&w[..chunk.len()]);
        }
    }
}

/// self-check of the assumption the scripts rest on: the word -> uniform value map of rand's Uniform<f64>
pub fn selfcheck_uniform_mapping() -> Result<(), String> {
    use rand::distr::{Distribution, Uniform};
    let unif = Uniform::<f64>::new(0., 1.).unwrap();
    for k in [0u64, 1, 2, 12345, (1 << 51), (1 << 52) - 1, 0x000F_0F0F_0F0F_0F0F & ((1 << 52) - 1)] {
        let words = [word_for_k(k)];
        let mut s = Script::new(&words);
        let u: f64 = unif.sample(&mut s);
        if u != k as f64 / TWO52 || s.consumed() != 1 || s.overrun != 0 {
            return Err(format!("Uniform<f64> maps word {:#x} to {} (expected {}), consumed {}", words[0], u, k as f64 / TWO52, s.consumed()));
        }
    }
    Ok(())
}
