//! Stand-alone replica of the small C18 sweep, run under `cargo +nightly miri run`.
//! Any undefined behaviour inside `Sig::get_sig` makes miri abort with an error.
use probminhash::probminhasher::sig::Sig;

fn all_vectors<T: Copy>(alpha: &[T], maxlen: usize) -> Vec<Vec<T>> {
    let mut out: Vec<Vec<T>> = vec![vec![]];
    let mut layer: Vec<Vec<T>> = vec![vec![]];
    for _ in 0..maxlen {
        let mut next = Vec::new();
        for v in &layer {
            for a in alpha {
                let mut w = v.clone();
                w.push(*a);
                next.push(w);
            }
        }
        out.extend(next.iter().cloned());
        layer = next;
    }
    out.push((0..33).map(|i| alpha[(i * 7) % alpha.len()]).collect());
    // the same values in larger allocations (spare capacity, reuse after clear)
    let extra: Vec<Vec<T>> = out
        .iter()
        .map(|v| {
            let mut a: Vec<T> = Vec::with_capacity(v.len() + 3);
            a.extend_from_slice(v);
            a
        })
        .collect();
    out.extend(extra);
    out
}

fn check<T: Sig + std::fmt::Debug>(name: &str, vals: &[T], expect: impl Fn(&T) -> Vec<u8>) -> usize {
    for v in vals {
        let got = v.get_sig();
        if got != expect(v) {
            println!("MISMATCH type={} value {:?}", name, v);
        }
    }
    vals.len()
}

fn main() {
    let mut n = 0;
    n += check("u8", &[0u8, 1, 0x7f, 0x80, 0xff], |v| vec![*v]);
    n += check("u16", &[0u16, 1, 0xff, 0xff00, 0xffff], |v| v.to_ne_bytes().to_vec());
    n += check("i16", &[0i16, 1, -1, i16::MIN, i16::MAX], |v| v.to_ne_bytes().to_vec());
    n += check("u32", &[0u32, 1, 0xff00ff, 0xff000000, u32::MAX], |v| v.to_ne_bytes().to_vec());
    n += check("i32", &[0i32, 1, -1, i32::MIN, i32::MAX], |v| v.to_ne_bytes().to_vec());
    n += check("u64", &[0u64, 1, 1 << 63, u64::MAX, 0x0102030405060708], |v| v.to_ne_bytes().to_vec());
    let ss: Vec<String> = ["", "a", "é", "\u{10348}", "aé\u{10348}", "\u{feff}", "\u{feff}abc", " a ", "a\n", "e\u{301}"].iter().map(|s| s.to_string()).collect();
    n += check("String", &ss, |v| v.as_bytes().to_vec());
    n += check("Vec<u8>", &all_vectors(&[0u8, 1, 0xff], 3), |v| v.clone());
    n += check("Vec<u16>", &all_vectors(&[0u16, 1, 0xff00], 3), |v| v.iter().flat_map(|x| x.to_ne_bytes()).collect());
    n += check("Vec<u32>", &all_vectors(&[0u32, 1, 0xff000000], 3), |v| v.iter().flat_map(|x| x.to_ne_bytes()).collect());
    println!("MIRI-DONE n={}", n);
}
