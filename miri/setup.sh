#!/bin/bash
# pre-builds the miri sysroot and the dependency tree of the replica (offline)
cd "$(dirname "$0")" || exit 2
export CARGO_NET_OFFLINE=true
unset RUSTFLAGS CARGO_ENCODED_RUSTFLAGS
export CARGO_TARGET_DIR="$(pwd)/target"
cargo +nightly miri --version >/dev/null 2>&1 || { echo "miri not available"; exit 0; }
cargo +nightly miri setup >/dev/null 2>&1 || true
# warm the dependency cache so that the first check does not pay for it
MIRIFLAGS="-Zmiri-disable-isolation" cargo +nightly miri run >/dev/null 2>&1 || true
exit 0
