#!/bin/bash
# runs the C18 replica under miri; prints MIRI-DONE on success, MIRI-UNAVAILABLE when the toolchain component is missing
cd "$(dirname "$0")" || exit 2
export CARGO_NET_OFFLINE=true
unset RUSTFLAGS CARGO_ENCODED_RUSTFLAGS
export CARGO_TARGET_DIR="$(pwd)/target"
if ! cargo +nightly miri --version >/dev/null 2>&1; then
  echo "MIRI-UNAVAILABLE"; exit 0
fi
export MIRIFLAGS="-Zmiri-disable-isolation"
exec cargo +nightly miri run 2>&1
