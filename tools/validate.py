#!/usr/bin/env python3
"""Validates MANIFEST.json and every evidence file against the schemas in /root/.vp."""
import json, glob, sys, os
import jsonschema
ROOT = os.path.dirname(os.path.dirname(os.path.abspath(__file__)))
ok = True
ms = json.load(open("/root/.vp/MANIFEST.schema.json"))
es = json.load(open("/root/.vp/EVIDENCE.schema.json"))
try:
    jsonschema.validate(json.load(open(f"{ROOT}/MANIFEST.json")), ms); print("MANIFEST ok")
except Exception as e:
    ok = False; print("MANIFEST INVALID", str(e)[:400])
for f in sorted(glob.glob(f"{ROOT}/evidence/*.json")):
    try:
        jsonschema.validate(json.load(open(f)), es); print("ok", os.path.basename(f))
    except Exception as e:
        ok = False; print("INVALID", f, str(e)[:400])
sys.exit(0 if ok else 1)
