#!/usr/bin/env python3
"""Prints a one-line-per-property summary of the evidence files (what the last run of each check covered)."""
import json, glob, os
ROOT = os.path.dirname(os.path.dirname(os.path.abspath(__file__)))
print("| id | tier | level | states / evaluations | transitions | distinct | violations | known findings hit | wall s |")
print("|---|---|---|---|---|---|---|---|---|")
for f in sorted(glob.glob(f"{ROOT}/evidence/C*.json")):
    e = json.load(open(f)); c = e["coverage"]
    kf = ", ".join(k["key"] for k in c.get("known_findings_hit", []))
    print(f"| {e['property_id']} | {e['tier']} | {e['level']} | {c.get('states', c.get('evaluations'))} | {c.get('transitions', c.get('evaluations'))} | {c.get('distinct_nontrivial')} | {e.get('violations')} | {kf} | {e['wall_s']:.1f} |")
