#!/usr/bin/env python3
"""Regenerates /verif/MANIFEST.json from the table below (single source of truth for the interface)."""
import json, os, subprocess, sys
ROOT = os.path.dirname(os.path.dirname(os.path.abspath(__file__)))

# id -> (level, technique, level text, level note, design_ref)
CHECKS = {
 "C15": ("model_checking",
         "explicit-state BFS (stateright) to a closed state space over the real tracker",
         "Every reachable state of the real MaxValueTracker for m<=8 (quick) / m<=11 (thorough) slots under update(k,v) with v from a 4-5 value alphabet and reset is visited; each transition re-materialises the real tracker, calls the real method and reads the node array back; slot=min offered, node=max(children), root=max(slots), is_update_possible(v)<=>v<max, and absence of internal assertion failures are checked in every state. Depth-bounded sequences from new() give an exploration that does not use from_raw. This is complete for the bounded alphabet: the tracker only compares values, so other values behave like these.",
         "hook H1 wrapper is faithful; slot counts beyond the bound and values outside the alphabet are not explored",
         "DESIGN.md §4 C15"),
 "C17": ("model_checking",
         "probabilistic explicit-state exploration: all generator scripts of the real shuffle enumerated",
         "The real FYshuffle is run under a scripted generator that the harness fully controls; all m! scripts for m<=9 (quick) / m<=11 (thorough) are enumerated and the map script->order is shown to be a bijection onto the permutations, so every order has probability prod 1/r exactly (up to the 2^-52 granularity of the generator, whose interval boundaries are probed word by word for every r<=64 and selected r up to 2^26). All pre-reset histories up to 2m draws followed by reset and all m! scripts are compared with a fresh instance (m<=4(5)); for m in {64,128,192,256,1000,(4096)} all histories of 1-2 draws and small-choice histories of 3-4 draws followed by reset are compared with a fresh instance, and all scripts of 2m-3m draws without reset are checked block-wise. Exact, no tolerance.",
         "rand's Uniform<f64> word->value map (self-checked); sizes beyond the bound not explored",
         "DESIGN.md §4 C17"),
 "C16": ("model_checking",
         "probabilistic explicit-state exploration: all generator scripts on a grid, rejection chain solved exactly",
         "The real ExpRestricted01::sample is run under a scripted generator: every first-try value on a 2^22 (2^24) grid and, behind a loop-forcing first word, every u2 on 4N midpoints of [0,1) for rates <= 1 and otherwise on N midpoints of each of 2L geometric strata towards 0 and towards 1 (N = 4096 (16384)); for every u2 the outcome as a function of u3 is probed at 258 points and every switch between neighbouring probes is located by bisection on the 52-bit generator value, so the measure of every outcome inside a row is exact; plus all 8^5 scripts over extreme generator words and the 81 generator values around the accept/loop boundary 1/c1. The sampler is a 3-state Markov chain (first try / loop / output) whose output distribution is solved exactly from the enumerated transition masses and compared at the 64 quantiles of (1-exp(-lambda t))/(1-exp(-lambda)) for ~80 (quick) / ~300 (thorough) rates from 1e-300 to 1e9; every output is checked to lie in [0,1). Decides the law up to 5e-6 (2e-6) at those quantiles (observed error <= 8e-7) for every rate alike; this resolution exposed the wrong law for rates above 709.78 that was then repaired. The structure-free scripts are repeated with a trace-level logger installed.",
         "rand's Uniform<f64> word->value map (self-checked); an outcome interval narrower than 1/256 in u3 would be missed; rates outside the list not explored",
         "DESIGN.md §4 C16"),
 "C19": ("exploration",
         "exhaustive input-domain enumeration (all 2^32 arguments; structured sub-domains of 2^64)",
         "The 32-bit pair is decided completely: all 2^32 arguments, both compositions. For the 64-bit pair complete enumeration is impossible; complete structured sub-domains are swept (consecutive blocks of 2^26/2^34 values low/high/complemented/shifted, a<<s for all shifts, <=4 (5) bits set or cleared, carry-chain patterns, forward/backward orbits): 2.8e8 values quick, 7e10 thorough.",
         "64-bit half is not exhaustive (stated in the evidence); a solver would be needed to close it, which is outside this family",
         "DESIGN.md §4 C19"),
 "C20": ("fault_enumeration",
         "crash-point enumeration: every byte prefix of every dumped file; exhaustive alphabet round trips",
         "For 100 (quick) / 2052 (thorough) parameter tuples the real dump is written and EVERY strict byte prefix of the file (the possible states after a crash during the dump) is reloaded with the real reload_json: the outcome must be Err - a panic or an Ok is a violation; missing file, missing directory, a directory in place of the file and a dump over an existing longer dump are separate cases. Round trip is checked on the cross product of an 18-float x 9-integer boundary alphabet, the longest files the dump can produce (20-digit integers, negative 17-digit floats with 3-digit exponents), plus 2e4 / 1e6 seeded bit-pattern tuples: m,q exact, a,b exact when <=15 significant digits else within 1 ulp.",
         "a crash leaves a prefix of the single buffered write; parameter space beyond the alphabet is sampled by bit patterns, not exhausted",
         "DESIGN.md §4 C20"),
 "C18": ("exploration",
         "exhaustive input-domain enumeration under memory-error detectors (sub-process abort, valgrind, miri)",
         "All values of u8/u16/i16 (and all 2^32 of u32/i32 in the thorough tier), a 2e5-pattern alphabet of u64, about 2800 strings (incl. byte order mark, zero-width spaces, line ends, combining accents), and every Vec<u8|u16|u32> of length 0..5 (6) over a 5-value boundary alphabet plus lengths 1000 and 1e6 are passed to the real get_sig and compared with an independent native-endian concatenation. Vector types run in supervised sub-processes so that a glibc abort is an observation; every vector is also rebuilt with spare capacity; the small sweep is repeated under valgrind memcheck and under cargo miri (both tiers; miri also checks allocation layouts on free) so that reads/frees of unowned memory fail loudly. ProbMinHash3aSha is driven with keys of every Sig type in all 24 insertion orders.",
         "memory safety is decided by the detectors on the explored values only; u64/String/Vec domains are boundary alphabets",
         "DESIGN.md §4 C18"),
 "C14": ("model_checking",
         "exhaustive enumeration of all sketch pairs up to a bound against a counting reference model",
         "Counting estimators: every ordered pair of sketches of length 1..5 over a 3-letter alphabet (4 letters for floats, two of them one ulp apart; 1.4e7 pairs in all) for each of the 6 free functions and the 2 estimator methods (also on fresh and re-initialised sketchers) and each element type, compared with count/len computed independently in the type's arithmetic, plus symmetry, value 1 on identical sketches, range, and every length pair la!=lb<=5 (must be Err or panic, never a value). MLE: every ordered pair of register vectors over two 4-letter alphabets, m<=3 (quick) / 4 (thorough), b in {1.001,1.2,2}, and every ordered pair of real sketches of a 15-set family (nested chain 1..1e5, disjoint, identical, 30 vs 20000, empty) for m in {64,256,(4096)}: the real get_mle must return Some(j), j finite in [0,1], without aborting.",
         "estimators only compare elements, so longer sketches / larger alphabets are assumed to behave alike; MLE domain limited to the explored register alphabets (cardinality ratios >= 1e-12) and set family",
         "DESIGN.md §4 C14"),
 "C09": ("model_checking",
         "explicit-state BFS (stateright) over the real densified sketchers to a closed state space; supervised termination cases",
         "The complete internal state of the real OptDensMinHash / RevOptDensMinHash (hook H3) is explored to a fixed point for m<=7 (quick) / 9 (thorough) under sketch(witness item per bin), end_sketch, sketch_slice (4 chunks incl. the empty one) and reinit; each transition replays the shortest history on a fresh real instance. On every finishing edge: populated bins bit-identical, every other bin holds the (value,hash) pair of a populated bin, nb_empty=0, all positions hold hashes of streamed items, u32 view = murmur3(127) of the u64 view, equal u64 entries imply equal float/u32 entries, a second end_sketch is a no-op, sketch_slice = item-wise + end_sketch, reinit = initial state. No-op-hasher variants use the boundary identifiers u64::MAX, 0, 1 as witnesses, and for m<=2 a pair of items with bit-identical f32 uniform value (found through the real sketcher) is added with the chunks [a,b] and [b,a]. Every non-empty occupancy pattern is additionally enumerated directly up to m=10 (13). Finishing an empty stream (fresh or after reinit; end_sketch and sketch_slice(&[])) runs in sub-processes with a 5 s horizon: not returning is the violation. A watchdog turns any in-process finishing call that exceeds 60 s into a violation.",
         "hook H3 exposes the whole mutable state; densification reads only the occupancy pattern",
         "DESIGN.md §4 C09"),
 "C07": ("exploration",
         "exhaustive enumeration of collision fractions k/m and of a cardinality grid; exhaustive labelling of identifier blocks against a closed-form collision model",
         "Totality: for 8 bases b in (1,2] every fraction k/m with m<=2048 (quick) / 12000 (thorough), bands next to 0 and 1 for m up to 2^32 and 12288 neighbouring floats are passed to the real get_jaccard_bounds (1.7e7 calls quick): it must return with lo<=hi+1e-9. Bracket: all 11^3 cardinality triples x 7 bases admissible under the clip precondition: collision probability from the closed-form model, real bounds must contain J within 1e-4. Collisions: 108 configurations (3 bases x m in {1,64,4096} x 8-12 set shapes incl. nested/disjoint/identical/1-vs-1e4 (1e6 thorough), u16/u32, plus partially clipping parameter sets); every labelling t of a seeded identifier block is sketched with the real sketcher and the mean collision fraction must lie within 6 standard errors of the model, confirmed on a 4x larger disjoint block before a violation is reported.",
         "collision part decides the enumerated block only (finite-population statement, resolution ~3/sqrt(register pairs)); the collision model is the stated reference",
         "DESIGN.md §4 C07"),
 "C11": ("model_checking",
         "exhaustive enumeration of all sequences up to a length (all permutations of every multiset, all short call histories) against a race-table reference model",
         "Every sequence of length l..6 (quick) / 8 (thorough) over a 4-5 letter alphabet, repeats included, for l in {1,2,3} and m in {1,2,4,16} (+3,8,33), with the Fnv hasher and with the no-op hasher on items whose hashes are the adjacent integers 1..4, is hashed by the real ProbOrdMinHash2; hook H4 exposes the selected (index,value) pairs per position. Grouped by multiset (2436 groups quick, 2196 with several permutations): the selected (element,occurrence) set per position must be identical across permutations and equal the l pairs with the smallest race values, the race tables being read from the real code; the signature value must be one injective function of the selected elements in sequence order; l=1 signatures are permutation invariant; a call's result is independent of 1-2 earlier calls on the instance (all choices from a 7-sequence pool, including refused calls on too-short sequences whose panic is caught). Non-vacuity: thousands of reject-then-accept events (the situation the repaired defect mishandled) are counted.",
         "instance seed pinned through hook H4 (seed randomness belongs to C12); race values assumed independent of l",
         "DESIGN.md §4 C11"),
 "C12": ("exploration",
         "exhaustive enumeration of call interleavings of 2-3 instances (one thread) + free-running threads (sampled) + repeated process launches",
         "For each of 42 (quick) / 105 (thorough) sketcher kinds (all 9 sketcher types x sizes x register types x entry points incl. std HashMap) every interleaving at call granularity of the call sequences (construction included) of 2 instances x 4 (5) steps and 3 instances x 3 (4) steps is executed, with identical and with different inputs (147000 interleavings quick); each instance must return its solo result. 800 (2000) weighted sets of 2000 and 150 items (two weight regimes) go through the std-HashMap entry points of the four ProbMinHash variants on two instances each (independent iteration orders). This closes the schedule quantifier at call granularity, which is where state hoisted into a static / thread-local / process global shows; the unchanged crate has no lock or atomic, so there is no finer scheduling point for a controlled scheduler. Then 20 (100) barrier-released rounds of 2..16 OS threads (sampling, labelled as such) and 8 (32) process launches whose digests must agree bit for bit.",
         "threads are sampled, not enumerated; a data race inside a call introduced via unsafe would need a race detector",
         "DESIGN.md §4 C12"),
 "C10": ("exploration",
         "exhaustive enumeration of rankings (target value) + exhaustive block enumeration of race tables and labellings on the real code",
         "The order-min-hash similarity of each sequence pair is computed by enumerating all ranking prefixes (cross-checked against all P! rankings for unions of <=8-9 pairs). By C11 (decided exactly) a position keeps the l smallest race values, so the collision probability equals the target iff the race tables of distinct (element,occurrence) pairs are exchangeable: for every element of a block of 2^19 (2^21) labels the tables of occurrences 1..3 are read from the real code (hook H4); bit-identical values across occurrences must not exist, P(occ_i<occ_j)=1/2, laws equal across occurrences/elements/positions (two-sample KS), no rank correlation, per position and on the per-pair minima. End-to-end: 16 sequence pairs (identical, reversed, shifted, one edit, common prefix, disjoint, repeats, the suite's patterns, long distinct sequences) x l in {1,2,3,5,8,15} x m in {1,4,16,64} = 208 configurations plus the repeated-element pairs under the no-op hasher with consecutive label hashes, 2e4..4e5 disjoint labellings each hashed by the same instance; mean within 6 standard errors of the target (exactly 0/1 where the target is 0/1), confirmed on a 4x larger fresh block before reporting.",
         "finite-population statement about the enumerated blocks; shifts below ~3/sqrt(N) are not resolved",
         "DESIGN.md §4 C10"),
 "C13": ("model_checking",
         "exhaustive operation-sequence exploration: all pre-histories x all post-inputs up to a depth, differential oracle against a fresh instance",
         "For 48 (quick) / 96 (thorough) sketcher kinds - SuperMinHash f32/f64, SuperMinHash2 u32/u64, SetSketcher u8/u16/u32 with overflowing and clipping parameter sets, both densified sketchers f32/f64, ProbMinHash2, and ProbOrdMinHash2's self-clearing hash_set, sizes {1,3,16} (+2,7,64) - every pre-history up to depth 3 (4) over {3 items, burst of 12 items, slice, empty slice (error path), end_sketch, merge with a fixed sketch, reinit} is followed by the reset and by every post-input of depth 1..2 (3); the complete observation (all views, cardinal stats, overflow count, ProbMinHash registers) must be bit-identical to a fresh instance fed the post-input (8.1e5 executions quick). Non-vacuity counters report how many pre-histories had lowered a_upper, raised lower_k, overflowed a register, or left densification pending/finished. A watchdog turns a non-returning finish call into a violation.",
         "hidden state that never influences a later observable view is not observed; deeper histories assumed alike",
         "DESIGN.md §4 C13"),
 "C04": ("model_checking",
         "exhaustive operation-sequence exploration: every stream (order, repetition) x every chunking up to a length, grouped by item set",
         "For 65 (quick) / 104 (thorough) kinds - SuperMinHash f32/f64, SuperMinHash2 u32/u64, SetSketcher u8/u16/u32 with three parameter sets, both densified sketchers f32/f64, sizes {1,2,3,7,64} (+5,16,200) - every stream of length 1..5 (6) over 5 (6) symbols (4-5 single items and a burst of 12 fresh items that drives a_upper / lower_k / nb_empty into their regimes) is run on the real sketcher item-wise, under every one of the 2^(L-1) chunkings into slice calls, and interleaved with empty slice calls; for the densified sketchers item-wise + end_sketch versus one slice call. All streams with the same set of distinct items must produce the bit-identical sketch (all views, cardinality statistics); positions of hash-storing sketches must hold hashes of streamed items (3.5e6 executions quick). No-op-hasher kinds with item 0 (hash 0) are part of the catalogue, and the random value that decides the owner of a position must be distinct over all 2^20 (2^23) items of a block (size-1 sketches; hook H5 for SuperMinHash2), with a concrete two-order witness when it is not.",
         "SetSketch's overflow counter and lazily maintained lower bound are diagnostics, not part of the sketch (C05 speaks about them); longer streams assumed alike",
         "DESIGN.md §4 C04"),
 "C05": ("model_checking",
         "exhaustive enumeration: all subsets against the join of real single-item sketches; all operation sequences over three instances against a set model",
         "Join: every non-empty subset of a 10 (12) item alphabet, all orders for |S|<=4 and four canonical orders above, is sketched with the real code and compared with the position-wise min (SuperMinHash f32/f64) resp. max (SetSketcher u8/u16/u32, 5 (b,q) sets incl. clipping q=3, m in {1,5,16,(2,40)}) of the REAL single-item sketches (SuperMinHash item-wise and through one slice call, also with the no-op hasher on an alphabet containing item 0); the reported lowest register must not exceed the true minimum. Merge: ALL sequences up to depth 5 (6) over 18 operations on three same-parameter instances (2 shared items, 1 own item and 1 overlapping burst per instance; 6 ordered merges), 8.4e6 sequences quick: the final state of every instance must equal the join over a set model in which merge is union, and the estimate must not decrease on the last operation. Commutativity, associativity, idempotence, merge = sketch of the union and streaming-after-merge are asserted on all triples of a 16-set family with empty sides; merges between 32 parameter pairs differing in exactly one of b,m,a,q (u16 and overflowing u8 registers) must be refused and leave signature, overflow count, lowest register and estimate unchanged.",
         "differences below 1e-6 relative are not claimed as 'different parameters'; larger alphabets / deeper sequences assumed alike",
         "DESIGN.md §4 C05"),
 "C03": ("model_checking",
         "exhaustive enumeration of all labellings of a hash-seed block (exact integer identity, Lemma 1) + finite-population partition estimates",
         "Unbiasedness is decided as an exact integer identity on the real sketchers: for 9 variants (SuperMinHash f32/f64, SuperMinHash2 u32/u64; Fnv, XxHash32, no-op hashers; fresh instances and instances reused after reinit), m in {1,2,3,5,8,16,33}, every set shape with union <=4 (5) and EVERY assignment of the identifiers of a block of 10 (13) to its roles (7.6e5 subset triples, 7e6 position comparisons quick), the number of labellings in which position p of sketch(A) and sketch(B) agree times |A∪B| equals the number of labellings times |A∩B| - no tolerance. A broken identity is arbitrated on 2e5 fresh labellings before it is reported, since the property speaks of the expectation. Large / lopsided shapes (singleton in 1e4, m>>n, m<<n, m=1) are checked on T disjoint labellings: |mean-J|<=6se and MSE<=J(1-J)/m+6se. The single-item law is checked on 2^16 (2^19) items: integer parts a permutation (exact), orders equally frequent (chi2), fractions uniform (KS) and uncorrelated.",
         "Lemma 1 (DESIGN §2) holds for sketchers that are set functions with label-independent winners and blocks without ties; statistical parts are finite-population statements with a 6 sigma / confirm rule",
         "DESIGN.md §2, §4 C03"),
 "C08": ("model_checking",
         "exhaustive enumeration of all labellings of a hash-seed block (exact integer identity, Lemma 1) on the densified sketchers, all three views",
         "For OptDensMinHash and RevOptDensMinHash (float f32/f64, u64 and u32 views; Fnv and no-op hashers), sketch sizes m in {1,2,3,5,8,16,33,64} - from m << |S| to m = 16|S| where >95% of bins are produced by densification - every set shape with union <=4 (5) and EVERY assignment of block identifiers (10 (13) ids, two blocks; 6.7e5 subset triples, 3.5e7 position comparisons quick): collisions(p) x |A∪B| == labellings x |A∩B| for every position and view, exactly. Broken identities are arbitrated on 2e5 fresh labellings. The per-item uniform value of the f64 sketchers must be distinct over 2^18 (2^21) single-item sketches (a coarser grid makes large bins tie on different items). Six large-set shapes (dense, sparse, very sparse, nested 4e4, lopsided, m=1) x 4 variants x 3 views are confirmed on T disjoint labellings within 6 standard errors. A watchdog reports a densification that does not return.",
         "Lemma 1 preconditions (no ties inside the block) are covered by arbitration; partition part is a finite-population statement",
         "DESIGN.md §2, §4 C08"),
 "C02": ("model_checking",
         "exhaustive enumeration of all weighted sets x all insertion orders x all entry points against the composition of the real single-item runs",
         "For ProbMinHash2, 3, 3a (Fnv and no-op hashers) and 3a-Sha (u64 and String keys), m in {2,3,4,8,16,(33)}: every non-empty weighted set over 4 (5) items x weights {absent,0.5,1,3,1e-300,1e300} (46400 sets quick), ALL insertion orders, every entry point (hash_item, hash_wset, IndexMap, std HashMap whose order is per-process random), every 2-way batch split and every re-insertion of an inserted pair at every later point - 2.3e6 executions quick. Oracle (exact): the registers read through hook H2 equal the position-wise minimum, and the signature the argmin, of the REAL single-item runs, which makes the signature a function of the weighted set; bit-equal ties are classified; every position holds an item of the set. Forced near-ties (weights tuned from real single-item runs so that two items differ by 1e-9..3e-15 at a chosen position, both orders), all subsets/orders with a placeholder object that is itself an item id, 40 (300) sets of 2000/300/150/50/40/30 items in forward/reversed/shuffled order through every entry point, ProbMinHash3 == 3a on hundreds of two-item sets at m = 5000/2000/3001, scaling by 2^k, the union clause on sets up to 300 items, ProbMinHash3 == ProbMinHash3a on all sets, and single items with weights down to the smallest normal float (known finding for w < 1e-304).",
         "hook H2 faithful; other weights/items behave like the alphabet since only comparisons of values scaling as 1/w matter",
         "DESIGN.md §4 C02"),
 "C06": ("exploration",
         "exhaustive stream enumeration (monotonicity), exhaustive enumeration of reduction orders with trace validation (parallel estimator), block enumeration of disjoint sets (accuracy)",
         "Monotone: every stream of length 5 (6) over {6 items, a burst of 12, merges with two different fixed sketches} for 5 parameter sets (1.6e5 streams quick) - the estimate never decreases after any step (exact). Parallel estimator: rayon's scheduler cannot be controlled, so its nondeterminism is modelled: for m<=9 (11) and 3 bases ALL Catalan(m-1) bracketings of the sum of register terms are enumerated, each must agree with the sequential estimate within m*2^-52, and the real get_cardinal_estimate run under pools of 1,2,3,4,8,16 threads must be a member of the modelled outcome set (2916 real runs validated); on every accuracy sketch the parallel and sequential estimates must agree to rounding. Accuracy: n in {1,2,10,1e3,1e5,(1e6)} x m in {64,256,(1024,4096)} x 3 (b,q) x u16/u32 x with/without repetition, plus tiny sets (n = 2, 5, 8) on m = 4096, on T disjoint sets (T=36m where the budget allows): |mean(n^/n)-1| <= 2 rsd^2 + 6 se and |sd/rsd-1| <= 0.15 + 6 se, confirmed on a 4x larger fresh block.",
         "rayon reduction modelled as order-preserving bracketings (validated by membership of real runs); accuracy is a finite-population statement (observed bias ~ rsd^2, i.e. half the allowed 2 rsd^2)",
         "DESIGN.md §4 C06"),
 "C01": ("exploration",
         "exhaustive enumeration of hash-seed blocks on the real code: single-item race tables against the exponential law, partition estimates of J_P and MSE",
         "Decomposition: by C02 (decided exactly) a signature is the position-wise argmin of per-item race values that scale as 1/w; given that, unbiasedness for arbitrary weights holds iff each item's value at a position is exponential with a common rate. (1) For EVERY identifier of a block of 2^19 (2^22) and m in {2,3,4,8,16,(64,256)}, variants 2, 3 and 3a-Sha, the single-item registers (hook H2) are compared with Exp(1/m) resp. Exp(ln(m/(m-1))) by KS and the position of the minimum with the uniform law. (2) 12 weighted-set shapes (equal weights, identical, disjoint, nested, weights differing by 1e6, 1 vs 300, 200 pseudo-random weights, common items with different weights, sets of 2/3/4 items) x m in {2,3,8,32,(4,128)} x all 4 variants x alternating entry points, T disjoint labellings: |mean-J_P|<=6se with J_P from its definition and MSE<=J_P(1-J_P)/m+6se. (3) share of positions won by each item of a single weighted set against w/sum(w). Exceedances are confirmed on a 4x larger fresh block before being reported.",
         "finite-population statements about the enumerated blocks (resolution ~3/sqrt(N)); known finding: MSE excess of the ProbMinHash3 family for m<=3 on sets of 2-3 items",
         "DESIGN.md §4 C01"),
}

# sentences appended to the level text: regimes added after seeding round 4 (see DESIGN.md 10.2)
EXTRA = {
 "C01": "Two shapes are repeated with all weights multiplied by 2^70, 2^-70, 1e15 and 2^600 through both entry points of every variant (J_P does not depend on the scale). Four shapes are also fed in two calls (lighter half first) for every variant.",
 "C02": "One 12-item set is run at signature lengths 65535, 65536 and 65537 through every order and entry point. One 70000-item set at m=16 and one set of 2^20+12 items (12 heavy ones last / first) are run through all entry point / order combinations.",
 "C03": "J = 1: for m in {4,8,12,16,32} every pair (x,y) of a rounding witness x (an item whose single-item f32 value is an exact integer, found by scanning 2^20 (2^22) items through the real code) and y from a 64-item block is streamed in 7 repeating / reordering patterns; all positions must equal those of [x,y]. This exposed and now guards the repaired order dependence of the f32 sketcher. The scan also runs at m=3 over 2^24 (2^26) items (integer parts must be a permutation), and groups of items whose level-0 entries collide on a 24-bit value are searched among 2^17 items; on all witness pairs the sketch of {x,y} must be the position-wise minimum of the two single-item sketches.",
 "C04": "Sketch size 65537 (thorough: 65535, 65536 too) is run with all streams of length <= 2 (3) over two items and the burst, and the rounding-witness streams of C03 are run as order / repetition cases. The stream 1..=70000 is presented in five ways to the 18 kinds of size 64.",
 "C05": "The join is also checked at sketch size 65537; refusal is checked on 116 parameter pairs x 2 register types from 32 ulp / 1e-12 relative upwards, and the receiver of a refused merge is compared with a twin over the rest of its stream. The witness-pair streams of C03 are run for the join property.",
 "C06": "The estimate is also compared across 5 ways of entering the items (item-wise, one slice, two slices, mixed) for all ordered selections of <= 3 of 8 items whose hashes are boundary values (0, 1, 2^64-1, 2^63, 2^32 ...) through the no-op hasher and Fnv. The monotone streams run on 10 parameter sets, 5 with extreme rates (2^62 .. 1e-4, registers saturating at q+1 or staying at 0), comparing the estimate of the sketcher with the parallel estimate at every step.",
 "C07": "36 collision configurations build the first sketch through a history: a merge with an incompatible sketcher attempted and refused halfway through the stream, reuse after reinit, merge of two half-stream sketchers. Every run is cross-checked against the estimator of the crate (exact agreement), 4 configurations use 70001 / 140001 registers, and totality is repeated for m <= 48 with a trace-level logger installed.",
 "C08": "144 structured-labelling configurations: no-op hasher, the two sets' own items related by one of 8 bit transformations (swap halves, rotate, reverse, complement ...), all three views against J. Every item of a block of 2^25 (2^27) populates one bin of a fresh f32 sketcher; items whose draw is exactly 0.0 are streamed alone and with 40 others: sets sharing them collide at their bin.",
 "C09": "sketch_slice = item-wise + end_sketch and the finishing-edge invariants are also checked on one stream at each of the sizes 255, 256, 257, 1000, 4097, 50000, 65535, 65536, 65537, 1000003, 3*2^20 (thorough: 2^22+1, 5*2^20). Single-item scan: every identifier of a block of 2^25 (2^27; f64: 2^20 (2^22)) populates exactly one bin with (a value in [0,1), its hash); zero-draw witnesses own their bin in longer streams.",
 "C10": "12 pairs of sequences with runs of 2^8-1..2^8+1 and 2^16-1..2^16+1 occurrences of one element are run at l=1 against a closed form in the element counts (cross-checked against the ranking enumeration on all count vectors <= 3).",
 "C11": "A third hasher configuration gives the symbols 64-bit hashes that agree pairwise on their low halves, high halves or xor-fold. A fourth configuration uses unequal items that hash alike (two tags per element).",
 "C12": "The slice entry point of the f32 densified sketchers is run 38 times under rayon pools of 1, 2, 4 and 16 workers on a 3e5-item slice whose minimum is a tie between two items (schedule sampling). Every kind and the large HashMap sets are run once more with a trace-level logger installed: the log level is part of the environment.",
 "C13": "Per sketcher type, one instance lives through c reset cycles for every c in 254..258 and 65534..65538 before the comparison with a fresh instance; fixed histories are also run at size 65537. Interrupted calls: for 7 sketcher types a call is interrupted by a panic of the item hasher at each of 4 positions of its stream (caught), then reset (nothing for ProbOrdMinHash2) and a post-input, compared with a fresh instance.",
 "C14": "The slice-taking functions are also run on every pair of sub-slices of one buffer (aliased arguments), and all functions on sketches of 65535, 65536, 65537 and 2^24+3 positions.",
 "C15": "Beyond the closed spaces, every m in 9..300, 2^k-1..2^k+1 (k=9..17), 1000, 5000, 50000, 100003 (thorough: ~2^20, 3000001) gets one structured six-phase history with every step checked against an ordered multiset of slot minima, and m in {1,2,3,5,8} gets 70000 (updates, reset) cycles. The six-phase history is repeated for m in {1,2,3,8,17,64} with a trace-level logger installed.",
 "C17": "Long runs under one patterned script: >= 70000 draws without reset and >= 66000 (draws, reset, m draws compared with a fresh instance) cycles for m in {1,2,3,5,255,256,257}; two full blocks for m in {65535,65536,65537,100003}. Fresh instances of 2^20+1, 2^20+3, 3000001 and 1048579 elements are probed; the scripts for m <= 5 are repeated with a trace-level logger installed.",
 "C18": "Vector lengths 255..257 and 65535..65537 are included; strings also cover all sequences of <= 3 of 13 characters a normalising conversion would touch (byte order mark, zero-width / no-break space, line ends, combining accent, case, U+FFFD, U+10FFFF).",
 "C19": "Values that are structured at one of the 8 stage boundaries inside the 64-bit mix (small values, complements, a<<s, 2^k+-d, <= 3 bits; 1.9e7 quick) are mapped to inputs and to hash values through a re-implementation of the stages that only generates candidates - the oracle stays the round trip on the real functions; 2^16 values are repeated with a trace-level logger installed.",
 "C20": "Dump histories in one directory: all ordered pairs over a 288-tuple neighbour alphabet (fields a few ulp or a tiny absolute amount apart) that differ in one field, a fifth (all) of the others, all triples over 8 values of a; the reload returns the last tuple dumped. The crash points and round trips of 6 tuples are repeated with a trace-level logger installed.",
}
for _k, _v in EXTRA.items():
    _t = list(CHECKS[_k]); _t[2] = _t[2] + " " + _v; CHECKS[_k] = tuple(_t)
PENDING_REASON = "check not built yet in this revision (see DESIGN.md §4 for the planned model-checking approach)"

def main():
    props = [json.loads(l) for l in open(os.path.join(ROOT, "properties.jsonl"))]
    hooks_commits = subprocess.run(["git", "-C", "/repo", "log", "--format=%H %s"], capture_output=True, text=True).stdout.splitlines()
    hook_shas = [l.split()[0] for l in hooks_commits if "verif hook" in l]
    checks, na = [], []
    for p in props:
        pid = p["id"]
        if pid in CHECKS:
            level, technique, text, note, ref = CHECKS[pid]
            checks.append({
                "property_id": pid,
                "quick_cmd": f"./check {pid} --tier quick",
                "thorough_cmd": f"./check {pid} --tier thorough",
                "evidence_file": f"/verif/evidence/{pid}.json",
                "replay_cmd_template": f"./check {pid} --replay {{path}}",
                "engine": "mc",
                "level_claimed": {"category": level, "text": text, "design_ref": ref},
                "level_note": note,
                "technique": technique,
            })
        else:
            na.append({"property_id": pid, "reason": PENDING_REASON})
    man = {
        "version": 1,
        "setup_cmd": "./check --setup",
        "hooks": {
            "guard": "--cfg probminhash_verif",
            "enable": "RUSTFLAGS='--cfg probminhash_verif' (set by ./check; /verif/harness depends on /repo by path and is rebuilt from its current working tree on every check)",
            "baseline_off_cmd": "cd /repo && cargo test --workspace --no-fail-fast --offline",
            "source_commits": hook_shas,
            "add_only": True,
        },
        "engines": [
            {"name": "mc", "path": "/verif/harness", "serves_properties": sorted(CHECKS.keys()),
             "kind_free_text": "Rust harness driving the real probminhash code: stateright explicit-state search, exhaustive operation-sequence / input-domain / crash-point enumeration, scripted-generator probabilistic exploration, exhaustive hash-seed block enumeration"},
        ],
        "checks": checks,
        "notes": "All checks are deterministic functions of (tree, VERIF_SEED, tier). Exit 2 + ENGINE-ERROR means machinery failure, never a verdict. Known findings: /verif/known_findings.txt.",
        "not_applicable": na,
    }
    json.dump(man, open(os.path.join(ROOT, "MANIFEST.json"), "w"), indent=1)
    print("MANIFEST.json written:", len(checks), "checks,", len(na), "not claimed")

if __name__ == "__main__":
    main()
