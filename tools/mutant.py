#!/usr/bin/env python3
"""Detection self-test helper.
  mutant.py new <name> <file-in-repo> <old> <new> [--nth N]   create selftest/mutants/<name>.diff (repo left clean)
  mutant.py run <name|path.diff> <prop> [<prop>...] [--tier T] apply to /repo, run ./check for each prop, revert
  mutant.py tests <name|path.diff> [cargo test filter...]     apply, run repo tests with the guard OFF, revert
/repo must be clean (committed) before; it is always restored with `git checkout -- .`."""
import subprocess, sys, os
ROOT = os.path.dirname(os.path.dirname(os.path.abspath(__file__)))
MUT = os.path.join(ROOT, "selftest", "mutants")

import signal
def _term(signum, frame):
    raise KeyboardInterrupt()
signal.signal(signal.SIGTERM, _term)

def sh(cmd, **kw):
    try:
        return subprocess.run(cmd, shell=isinstance(cmd, str), text=True, capture_output=True, **kw)
    except subprocess.TimeoutExpired as e:
        class R: pass
        r = R(); r.returncode = 124; r.stdout = (e.stdout or b"").decode() if isinstance(e.stdout, bytes) else (e.stdout or ""); r.stderr = "timeout"
        return r

def clean():
    r = sh("git -C /repo status --porcelain --untracked-files=no")
    return r.stdout.strip() == ""

def revert():
    sh("git -C /repo checkout -- .")

def path_of(name):
    return name if os.path.exists(name) else os.path.join(MUT, name + ".diff")

def main():
    if len(sys.argv) < 3: print(__doc__); sys.exit(2)
    cmd = sys.argv[1]
    if not clean():
        print("repo not clean"); sys.exit(2)
    if cmd == "new":
        name, f, old, new = sys.argv[2:6]
        nth = None
        if "--nth" in sys.argv: nth = int(sys.argv[sys.argv.index("--nth")+1])
        p = os.path.join("/repo", f)
        s = open(p).read()
        n = s.count(old)
        if n == 0: print("pattern not found"); sys.exit(2)
        if n > 1 and nth is None: print(f"pattern found {n} times; use --nth"); sys.exit(2)
        if nth is None:
            s2 = s.replace(old, new)
        else:
            parts = s.split(old)
            s2 = old.join(parts[:nth+1]) + new + old.join(parts[nth+1:])
        try:
            open(p, "w").write(s2)
            d = sh("git -C /repo diff").stdout
            open(os.path.join(MUT, name + ".diff"), "w").write(d)
            print(d)
        finally:
            revert()
    elif cmd == "run":
        patch = path_of(sys.argv[2])
        args = sys.argv[3:]
        tier = "quick"
        if "--tier" in args:
            i = args.index("--tier"); tier = args[i+1]; del args[i:i+2]
        r = sh(f"git -C /repo apply {patch}")
        if r.returncode != 0: print("apply failed", r.stderr); sys.exit(2)
        try:
            for prop in args:
                r = sh(f"timeout 1500 {ROOT}/check {prop} --tier {tier}")
                lines = [l for l in r.stdout.splitlines() if l.startswith(("VIOLATION", "DETAIL", "KNOWN", "ENGINE", "SUMMARY"))]
                print(f"== {os.path.basename(patch)} {prop}: rc={r.returncode}")
                for l in lines[:12]: print("   ", l[:300])
        finally:
            revert()
    elif cmd == "tests":
        patch = path_of(sys.argv[2])
        filt = " ".join(sys.argv[3:])
        r = sh(f"git -C /repo apply {patch}")
        if r.returncode != 0: print("apply failed", r.stderr); sys.exit(2)
        try:
            r = sh(f"cd /repo && cargo test --offline --release {filt} 2>&1 | grep -E '^test |test result|error' | tail -40")
            print(r.stdout)
        finally:
            revert()
    else:
        print(__doc__); sys.exit(2)

if __name__ == "__main__":
    main()
