#!/bin/bash
# try_seed.sh <Cxx> <patch.diff (absolute)>: apply a seeded change to /repo, run the quick check of the property, revert.
id=$1; patch=$2
git -C /repo apply "$patch" || { echo "$id APPLY-FAILED"; exit 2; }
t0=$(date +%s)
/verif/check $id --tier quick > /tmp/seed/chk_$id.log 2>&1; rc=$?
git -C /repo checkout -- .
echo "$id rc=$rc $(( $(date +%s)-t0 ))s $(grep -m1 -E 'DETAIL|ENGINE' /tmp/seed/chk_$id.log | cut -c1-260)"
