#!/bin/bash
# confirm_seed.sh <Cxx>: in the scratch worktree /tmp/seed/<Cxx>, confirm that the seeded change
#  (1) compiles, (2) leaves the repository's suite green, (3) makes demo.rs fail, and that demo.rs passes without it.
id=$1; W=/tmp/seed/$id; O=/tmp/seed/$id-out${OUTSUF:-}
cd $W || exit 2
git checkout -q -- . ; rm -rf tests
res() { echo "$1" >> $O/confirm.txt; }
: > $O/confirm.txt
git apply $O/patch.diff || { res "apply=FAILED"; exit 1; }
res "apply=ok"
if cargo build --offline --release >/dev/null 2>&1; then res "build=ok"; else res "build=FAILED"; fi
cargo test --offline --release 2>&1 | grep -E "^test |test result" > $O/confirm_suite.txt
res "suite_with_change=$(grep -E '^test result' $O/confirm_suite.txt | head -1)"
res "suite_failed_tests=$(grep -E '^test .*FAILED' $O/confirm_suite.txt | tr '\n' ';')"
mkdir -p tests; cp $O/demo.rs tests/demo.rs
cargo test --offline --release --test demo 2>&1 | grep -E "test result" | head -1 > $O/confirm_demo_with.txt
res "demo_with_change=$(cat $O/confirm_demo_with.txt)"
git checkout -q -- src
cargo test --offline --release --test demo 2>&1 | grep -E "test result" | head -1 > $O/confirm_demo_without.txt
res "demo_without_change=$(cat $O/confirm_demo_without.txt)"
rm -rf tests; git checkout -q -- .
cat $O/confirm.txt
